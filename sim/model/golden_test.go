package model

import (
	"bytes"
	"testing"
)

// Golden vectors copied from the repository's pinned tests (messages/*_test.go): the reference
// model must reproduce them. A disagreement here is a defect of the model, not of the library.

func pad64(b []byte) []byte {
	out := make([]byte, 64)
	copy(out, b)
	return out
}

func TestGoldenRequests(t *testing.T) {
	d := func(y, m, dd int) Date { return Date{Y: y, M: m, D: dd} }
	wd := map[int]bool{1: true, 2: true, 3: false, 4: true, 5: false, 6: true, 0: true}
	tests := []struct {
		name string
		op   Op
		args Args
		want []byte
	}{
		{"put-card", PutCard, Args{Serial: 423187757, Card: &Card{Number: 6154412, From: d(2019, 1, 2), To: d(2019, 12, 31), Doors: map[uint8]uint8{1: 1, 2: 0, 3: 29, 4: 1}}},
			[]byte{0x17, 0x50, 0x00, 0x00, 0x2d, 0x55, 0x39, 0x19, 0xac, 0xe8, 0x5d, 0x00, 0x20, 0x19, 0x01, 0x02, 0x20, 0x19, 0x12, 0x31, 0x01, 0x00, 0x1d, 0x01}},
		{"set-time-profile", SetTimeProfile, Args{Serial: 423187757, Profile: &Profile{ID: 4, Linked: 19, From: d(2021, 4, 1), To: d(2021, 12, 29), Weekdays: wd,
			Segments: map[uint8]Segment{1: {HHmm{8, 30}, HHmm{9, 45}}, 2: {HHmm{11, 35}, HHmm{13, 15}}, 3: {HHmm{14, 1}, HHmm{17, 59}}}}},
			[]byte{0x17, 0x88, 0x00, 0x00, 0x2d, 0x55, 0x39, 0x19, 0x04, 0x20, 0x21, 0x04, 0x01, 0x20, 0x21, 0x12, 0x29, 0x01, 0x01, 0x00, 0x01, 0x00, 0x01, 0x01, 0x08, 0x30, 0x09, 0x45, 0x11, 0x35, 0x13, 0x15,
				0x14, 0x01, 0x17, 0x59, 0x13}},
		{"add-task", AddTask, Args{Serial: 423187757, Task: &Task{Type: 4, Door: 3, From: d(2021, 4, 1), To: d(2021, 12, 29), Weekdays: wd, Start: HHmm{8, 30}, Cards: 7}},
			[]byte{0x17, 0xa8, 0x00, 0x00, 0x2d, 0x55, 0x39, 0x19, 0x20, 0x21, 0x04, 0x01, 0x20, 0x21, 0x12, 0x29, 0x01, 0x01, 0x00, 0x01, 0x00, 0x01, 0x01, 0x08, 0x30, 0x03, 0x04, 0x07}},
		{"get-status", GetStatus, Args{Serial: 423187757}, []byte{0x17, 0x20, 0x00, 0x00, 0x2d, 0x55, 0x39, 0x19}},
	}
	for _, tc := range tests {
		if r := Validate(tc.op, &tc.args); r != "" {
			t.Errorf("%s: rejected: %s", tc.name, r)
			continue
		}
		got := Encode(tc.op, &tc.args)
		if !bytes.Equal(got, pad64(tc.want)) {
			t.Errorf("%s:\n got %x\nwant %x", tc.name, got, pad64(tc.want))
		}
	}
}

func TestGoldenStatusReply(t *testing.T) {
	// messages/get_status_test.go TestUnmarshalGetStatusResponse
	reply := []byte{
		0x17, 0x20, 0x00, 0x00, 0x2d, 0x55, 0x39, 0x19, 0x39, 0x00, 0x00, 0x00, 0x01, 0x00, 0x03, 0x01,
		0xaa, 0xe8, 0x5d, 0x00, 0x20, 0x19, 0x04, 0x19, 0x17, 0x00, 0x09, 0x06, 0x01, 0x00, 0x01, 0x01,
		0x00, 0x00, 0x01, 0x01, 0x09, 0x14, 0x37, 0x02, 0x11, 0x00, 0x00, 0x00, 0x21, 0x00, 0x00, 0x00,
		0x2b, 0x04, 0x01, 0x19, 0x04, 0x20, 0x00, 0x00, 0x93, 0x26, 0x04, 0x88, 0x08, 0x92, 0x00, 0x00,
	}
	e := Decode(GetStatus, &Args{Serial: 423187757}, reply, Ctx{})
	want := map[string]string{
		"serial": "423187757", "ev.index": "57", "ev.type": "1", "ev.granted": "false", "ev.door": "3", "ev.direction": "1", "ev.card": "6154410",
		"ev.timestamp": "2019-04-19 17:00:09", "ev.reason": "6", "doorstate1": "true", "doorstate2": "false", "doorstate3": "true", "doorstate4": "true",
		"doorbutton1": "false", "doorbutton2": "false", "doorbutton3": "true", "doorbutton4": "true", "syserror": "9", "sysdatetime": "2019-04-20 14:37:02",
		"seq": "17", "special": "43", "relay": "4", "input": "1",
	}
	if e.Fail != 0 {
		t.Fatalf("unexpected failure expectation: %+v", e)
	}
	for k, v := range want {
		if len(e.F[k]) == 0 || e.F[k][0] != v {
			t.Errorf("%s: got %v want %s", k, e.F[k], v)
		}
	}
}
