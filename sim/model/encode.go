package model

import (
	"fmt"
	"net/netip"
)

func le32(b []byte, off int, v uint32) {
	b[off] = byte(v)
	b[off+1] = byte(v >> 8)
	b[off+2] = byte(v >> 16)
	b[off+3] = byte(v >> 24)
}

func rd32(b []byte, off int) uint32 {
	return uint32(b[off]) | uint32(b[off+1])<<8 | uint32(b[off+2])<<16 | uint32(b[off+3])<<24
}

func bcd2(v int) byte { return byte((v/10)%10)<<4 | byte(v%10) }

func putDate(b []byte, off int, d Date) {
	if d.Zero {
		return
	}
	b[off] = bcd2(d.Y / 100)
	b[off+1] = bcd2(d.Y % 100)
	b[off+2] = bcd2(d.M)
	b[off+3] = bcd2(d.D)
}

func putHHmm(b []byte, off int, h HHmm) {
	b[off] = bcd2(h.H)
	b[off+1] = bcd2(h.M)
}

func putBool(b []byte, off int, v bool) {
	if v {
		b[off] = 1
	}
}

// ip4 extracts the IPv4 address of a net.IP byte string (4 bytes, or 16 bytes in the
// IPv4-in-IPv6 form); ok is false for anything else.
func ip4(ip []byte) (a [4]byte, ok bool) {
	switch len(ip) {
	case 4:
		copy(a[:], ip)
		return a, true
	case 16:
		for i := 0; i < 10; i++ {
			if ip[i] != 0 {
				return a, false
			}
		}
		if ip[10] != 0xff || ip[11] != 0xff {
			return a, false
		}
		copy(a[:], ip[12:])
		return a, true
	}
	return a, false
}

// IsWiegand26 - facility code 0..255 followed by a five-digit number 0..65535.
func IsWiegand26(card uint32) bool {
	return card/100000 <= 255 && card%100000 <= 65535
}

// Validate returns the reason for which the call must be rejected before anything is sent,
// or "" if the call must reach the network.
func Validate(op Op, a *Args) string {
	if op == GetDevices {
		return ""
	}
	if a.Serial == 0 {
		return "controller id 0"
	}
	switch op {
	case PutCard:
		c := a.Card
		if c.Number == 0 || c.Number == 0xffffffff || c.Number == 0x00ffffff {
			return "card number"
		}
		if c.PIN > 999999 {
			return "PIN"
		}
		if len(a.Formats) > 0 {
			ok := false
			for _, f := range a.Formats {
				switch f {
				case 0: // any
					ok = true
				case 1: // Wiegand-26
					if IsWiegand26(c.Number) {
						ok = true
					}
				}
			}
			if !ok {
				return "card format"
			}
		}
	case SetListener:
		if a.AddrPort == "" {
			return "invalid listener address"
		}
		ap, err := netip.ParseAddrPort(a.AddrPort)
		if err != nil {
			return "invalid listener address"
		}
		zero := ap.Addr() == netip.IPv4Unspecified() && ap.Port() == 0
		if !zero && (!ap.Addr().Is4() || ap.Port() == 0) {
			return "listener address"
		}
	case SetAddress:
		for i := 0; i < 3; i++ {
			if _, ok := ip4(a.IPs[i]); !ok {
				return "non-IPv4 address"
			}
		}
	case SetDoorPasscodes:
		if a.U8 < 1 || a.U8 > 4 {
			return "door"
		}
	case SetTimeProfile:
		p := a.Profile
		if p.From.Zero {
			return "from date"
		}
		if p.To.Zero {
			return "to date"
		}
		for _, k := range []uint8{1, 2, 3} {
			s, ok := p.Segments[k]
			if !ok {
				return fmt.Sprintf("segment %d missing", k)
			}
			if s.End.H < s.Start.H || (s.End.H == s.Start.H && s.End.M < s.Start.M) {
				return fmt.Sprintf("segment %d ends before it starts", k)
			}
		}
	}
	return ""
}

// Encode is the UT0311-L0x request for the call. It is defined for calls Validate accepts.
func Encode(op Op, a *Args) []byte {
	b := make([]byte, 64)
	b[0] = 0x17
	b[1] = op.Code()
	if op != GetDevices {
		le32(b, 4, a.Serial)
	}
	switch op {
	case SetAddress:
		for i := 0; i < 3; i++ {
			v, _ := ip4(a.IPs[i])
			copy(b[8+4*i:], v[:])
		}
		le32(b, 20, Magic)
	case SetListener:
		ap, _ := netip.ParseAddrPort(a.AddrPort)
		v := ap.Addr().As4()
		copy(b[8:], v[:])
		b[12] = byte(ap.Port())
		b[13] = byte(ap.Port() >> 8)
		b[14] = a.U8
	case SetTime:
		t := a.Time
		b[8] = bcd2(t.Y / 100)
		b[9] = bcd2(t.Y % 100)
		b[10] = bcd2(t.Mo)
		b[11] = bcd2(t.D)
		b[12] = bcd2(t.H)
		b[13] = bcd2(t.Mi)
		b[14] = bcd2(t.S)
	case GetDoorControlState, OpenDoor:
		b[8] = a.U8
	case SetDoorControlState:
		b[8] = a.U8
		b[9] = byte(a.State)
		b[10] = a.U8b
	case GetCardByIndex, GetCardByID, DeleteCard, GetEvent:
		le32(b, 8, a.U32)
	case PutCard:
		c := a.Card
		le32(b, 8, c.Number)
		putDate(b, 12, c.From)
		putDate(b, 16, c.To)
		b[20] = c.Doors[1]
		b[21] = c.Doors[2]
		b[22] = c.Doors[3]
		b[23] = c.Doors[4]
		b[24] = byte(c.PIN)
		b[25] = byte(c.PIN >> 8)
		b[26] = byte(c.PIN >> 16)
	case DeleteCards, ClearTimeProfiles, ClearTaskList, RefreshTaskList, RestoreDefaultParameters:
		le32(b, 8, Magic)
	case GetTimeProfile:
		b[8] = a.U8
	case SetTimeProfile:
		p := a.Profile
		b[8] = p.ID
		putDate(b, 9, p.From)
		putDate(b, 13, p.To)
		// Monday..Sunday at 17..23
		for i, wd := range []int{1, 2, 3, 4, 5, 6, 0} {
			putBool(b, 17+i, p.Weekdays[wd])
		}
		for i, k := range []uint8{1, 2, 3} {
			putHHmm(b, 24+4*i, p.Segments[k].Start)
			putHHmm(b, 26+4*i, p.Segments[k].End)
		}
		b[36] = p.Linked
	case AddTask:
		t := a.Task
		putDate(b, 8, t.From)
		putDate(b, 12, t.To)
		for i, wd := range []int{1, 2, 3, 4, 5, 6, 0} {
			putBool(b, 16+i, t.Weekdays[wd])
		}
		putHHmm(b, 23, t.Start)
		b[25] = t.Door
		b[26] = byte(t.Type)
		b[27] = t.Cards
	case RecordSpecialEvents:
		putBool(b, 8, a.Bool)
	case SetEventIndex:
		le32(b, 8, a.U32)
		le32(b, 12, Magic)
	case SetDoorPasscodes:
		b[8] = a.U8
		for i := 0; i < 4 && i < len(a.Passcodes); i++ {
			if a.Passcodes[i] <= 999999 {
				le32(b, 12+4*i, a.Passcodes[i])
			}
		}
	case SetPCControl:
		le32(b, 8, Magic)
		putBool(b, 12, a.Bool)
	case SetInterlock:
		b[8] = a.U8
	case ActivateKeypads:
		putBool(b, 8, a.Readers[1])
		putBool(b, 9, a.Readers[2])
		putBool(b, 10, a.Readers[3])
		putBool(b, 11, a.Readers[4])
	}
	return b
}
