package model

import "net/netip"

// DeviceConf is a configured controller as the client was constructed with it.
type DeviceConf struct {
	ID       uint32
	Name     string
	Addr     string // "" none; else ip:port
	Protocol string
}

type ClientConf struct {
	Bind      string
	Broadcast string
	Devices   []DeviceConf
}

type Route struct {
	Path string // broadcast | udp | tcp
	Dst  netip.AddrPort
}

// DefaultBroadcast is where a client without a configured broadcast address sends.
var DefaultBroadcast = netip.MustParseAddrPort("255.255.255.255:60000")

// BroadcastOf: the configured broadcast address, or the default.
func BroadcastOf(c ClientConf) netip.AddrPort {
	if ap, err := netip.ParseAddrPort(c.Broadcast); err == nil && ap.Addr().IsValid() {
		// an IPv4 address written in its IPv4-mapped IPv6 form (what a net.UDPAddr hands out) is that IPv4 address
		ap = netip.AddrPortFrom(ap.Addr().Unmap(), ap.Port())
		return ap
	}
	return DefaultBroadcast
}

// usable: an IPv4 address other than 0.0.0.0 with a non-zero port.
func usable(addr string) (netip.AddrPort, bool) {
	ap, err := netip.ParseAddrPort(addr)
	if err != nil {
		return netip.AddrPort{}, false
	}
	if !ap.Addr().Is4() || ap.Addr().IsUnspecified() || ap.Port() == 0 {
		return netip.AddrPort{}, false
	}
	return ap, true
}

// RouteOf decides where a request for controller 'serial' goes. Devices later in the list
// override earlier entries with the same id (the client keeps a table keyed by id).
func RouteOf(c ClientConf, op Op, serial uint32) Route {
	if op == GetDevices {
		return Route{Path: "broadcast", Dst: BroadcastOf(c)}
	}
	var dev *DeviceConf
	for i := range c.Devices {
		if c.Devices[i].ID == serial {
			dev = &c.Devices[i]
		}
	}
	if dev != nil {
		if ap, ok := usable(dev.Addr); ok {
			if dev.Protocol == "tcp" {
				return Route{Path: "tcp", Dst: ap}
			}
			return Route{Path: "udp", Dst: ap}
		}
	}
	return Route{Path: "broadcast", Dst: BroadcastOf(c)}
}

// NameOf is the configured name of a controller ("" if it is not configured).
func NameOf(c ClientConf, serial uint32) string {
	name := ""
	for _, d := range c.Devices {
		if d.ID == serial {
			name = d.Name
		}
	}
	return name
}

// BroadcastPort is the port that completes addresses in discovery results.
func BroadcastPort(c ClientConf) uint16 {
	return BroadcastOf(c).Port()
}

// EventOK: a datagram that is a well-formed event: 64 bytes, protocol id 0x17 or 0x19,
// function code 0x20, non-zero serial number, every field in its domain.
// The second result is true when the datagram is valid apart from fields whose out-of-domain
// value the protocol reading allows to come back as 'no value' (then event-or-error is accepted).
func EventOK(d []byte) (valid bool, soft bool) {
	if len(d) != 64 {
		return false, false
	}
	if d[0] != 0x17 && d[0] != 0x19 {
		return false, false
	}
	if d[1] != 0x20 {
		return false, false
	}
	if rd32(d, 4) == 0 {
		return false, false
	}
	e := Decode(GetStatus, &Args{}, d, Ctx{})
	if e.Fail == 0 {
		return true, false
	}
	return false, !e.Hard
}
