package model

import (
	"fmt"
	"math/rand"
	"time"
)

func pick[T any](r *rand.Rand, xs ...T) T { return xs[r.Intn(len(xs))] }

func GenU32(r *rand.Rand) uint32 {
	switch r.Intn(8) {
	case 0:
		return pick(r, uint32(0), 1, 0xffffffff, 0x00ffffff, 0xfffffffe, 0x80000000, 0x01000000, 0x00fffffe)
	case 1:
		return uint32(1) << uint(r.Intn(32))
	case 2:
		return uint32(r.Intn(100000000)) // 8 decimal digits
	case 3:
		return uint32(1000000000 + r.Intn(1000000000)) // 10 decimal digits
	}
	return r.Uint32()
}

func GenU8(r *rand.Rand) uint8 {
	if r.Intn(3) == 0 {
		return pick(r, uint8(0), 1, 2, 3, 4, 5, 254, 255, 0x80, 0x7f)
	}
	return uint8(r.Intn(256))
}

// GenSerial: non-zero controller serial numbers with boundary bias.
func GenSerial(r *rand.Rand) uint32 {
	for {
		var v uint32
		switch r.Intn(5) {
		case 0:
			v = pick(r, uint32(1), 0xffffffff, 0x80000000, 0x01000000, 405419896, 303986753, 0x000000ff, 0xff000000)
		default:
			v = r.Uint32()
		}
		if v != 0 {
			return v
		}
	}
}

// GenDate: a valid calendar date in 0001-01-02..9999-12-31 with boundary bias.
func GenDate(r *rand.Rand) Date {
	switch r.Intn(10) {
	case 0:
		return pick(r, Date{Y: 1, M: 1, D: 2}, Date{Y: 9999, M: 12, D: 31}, Date{Y: 2000, M: 2, D: 29}, Date{Y: 1999, M: 12, D: 31},
			Date{Y: 2024, M: 10, D: 31}, Date{Y: 1900, M: 2, D: 28}, Date{Y: 2100, M: 3, D: 1}, Date{Y: 999, M: 11, D: 30}, Date{Y: 100, M: 1, D: 1})
	case 1:
		y := 1 + r.Intn(9999)
		m := 10 + r.Intn(3)
		return Date{Y: y, M: m, D: daysIn(y, m)}
	}
	y := 1 + r.Intn(9999)
	if r.Intn(2) == 0 {
		y = 1990 + r.Intn(60)
	}
	m := 1 + r.Intn(12)
	d := 1 + r.Intn(daysIn(y, m))
	if y == 1 && m == 1 && d == 1 {
		d = 2
	}
	return Date{Y: y, M: m, D: d}
}

func GenHHmm(r *rand.Rand) HHmm {
	switch r.Intn(6) {
	case 0:
		return pick(r, HHmm{0, 0}, HHmm{23, 59}, HHmm{24, 0}, HHmm{12, 0}, HHmm{0, 1}, HHmm{9, 59}, HHmm{10, 10}, HHmm{19, 9})
	}
	return HHmm{r.Intn(24), r.Intn(60)}
}

func genWeekdays(r *rand.Rand) map[int]bool {
	switch r.Intn(5) {
	case 0:
		return nil
	case 1:
		m := map[int]bool{}
		for i := 0; i < 7; i++ {
			if r.Intn(2) == 0 {
				m[i] = true // partial map: only the true entries
			}
		}
		return m
	}
	m := map[int]bool{}
	for i := 0; i < 7; i++ {
		m[i] = r.Intn(2) == 0
	}
	switch r.Intn(8) {
	case 0:
		// a day that is none of the seven: it belongs to no field of the request
		m[[]int{7, 8, -1, 100}[r.Intn(4)]] = true
	case 1:
		delete(m, 0) // no entry for Sunday at all
		m[7] = true
	}
	return m
}

// over draws a value in lo..99, half of the time exactly lo: the first value beyond a domain is where an
// off-by-one in a range check shows.
func over(r *rand.Rand, lo int) int {
	if r.Intn(2) == 0 {
		return lo
	}
	return lo + r.Intn(100-lo)
}

func genSegments(r *rand.Rand) map[uint8]Segment {
	m := map[uint8]Segment{}
	for k := uint8(1); k <= 3; k++ {
		a, b := GenHHmm(r), GenHHmm(r)
		if b.H < a.H || (b.H == a.H && b.M < a.M) {
			a, b = b, a
		}
		switch r.Intn(6) {
		case 0:
			b = a // end == start is acceptable
		case 1:
			a, b = HHmm{}, HHmm{}
		}
		m[k] = Segment{a, b}
	}
	if r.Intn(8) == 0 {
		// entries outside 1..3 belong to no protocol field: ignored, whatever they hold
		stray := Segment{HHmm{18, 0}, HHmm{17, 0}}
		if r.Intn(2) == 0 {
			stray = Segment{HHmm{8, 30}, HHmm{9, 45}} // well formed, and still no business of the request
		}
		m[[]uint8{0, 4, 9, 255}[r.Intn(4)]] = stray
	}
	return m
}

var zones = []string{"", "", "UTC", "America/Santiago", "Pacific/Apia", "Asia/Kolkata", "Australia/Lord_Howe", "Europe/London", "America/St_Johns", "Asia/Kathmandu", "Pacific/Kiritimati"}

// GenCivil: any instant with year 0001..9999 in any Location.
func GenCivil(r *rand.Rand) *Civil {
	c := &Civil{}
	zone := pick(r, zones...)
	var loc *time.Location
	if zone != "" {
		if l, err := time.LoadLocation(zone); err == nil {
			loc = l
			c.Zone = zone
		}
	}
	if loc == nil {
		c.Offset = pick(r, 0, 0, 3600, -3600, 19800, -12600, 50400, -43200, 20700, 1, -1, 3599)
		loc = time.FixedZone("", c.Offset)
	}
	d := GenDate(r)
	if d.Y <= 1 {
		d.Y = 2
	}
	if d.Y >= 9999 {
		d.Y = 9998
	}
	h, mi, s := r.Intn(24), r.Intn(60), r.Intn(60)
	if r.Intn(6) == 0 {
		h, mi, s = pick(r, 0, 23), pick(r, 0, 59), pick(r, 0, 59)
	}
	nsec := 0
	if r.Intn(3) == 0 {
		nsec = r.Intn(1000000000)
	}
	t := time.Date(d.Y, time.Month(d.M), d.D, h, mi, s, nsec, loc)
	c.Unix, c.Nsec = t.Unix(), t.Nanosecond()
	// the civil fields of the argument in its own Location
	y, mo, dd := t.Date()
	hh, mm, ss := t.Clock()
	c.Y, c.Mo, c.D, c.H, c.Mi, c.S = y, int(mo), dd, hh, mm, ss
	return c
}

func genIPv4(r *rand.Rand) []byte {
	var b []byte
	switch r.Intn(6) {
	case 0:
		b = pick(r, []byte{0, 0, 0, 0}, []byte{255, 255, 255, 255}, []byte{255, 255, 255, 0}, []byte{192, 168, 1, 1}, []byte{10, 0, 0, 255})
		b = append([]byte{}, b...)
	default:
		b = []byte{byte(r.Intn(256)), byte(r.Intn(256)), byte(r.Intn(256)), byte(r.Intn(256))}
	}
	if r.Intn(3) == 0 { // the 16-byte IPv4-in-IPv6 form net.IPv4() and net.ParseIP() produce
		return append([]byte{0, 0, 0, 0, 0, 0, 0, 0, 0, 0, 0xff, 0xff}, b...)
	}
	return b
}

func genDoors(r *rand.Rand) map[uint8]uint8 {
	switch r.Intn(6) {
	case 0:
		return nil
	case 1:
		m := map[uint8]uint8{}
		for k := uint8(1); k <= 4; k++ {
			if r.Intn(2) == 0 {
				m[k] = GenU8(r)
			}
		}
		return m
	}
	m := map[uint8]uint8{}
	for k := uint8(1); k <= 4; k++ {
		m[k] = GenU8(r)
	}
	if r.Intn(8) == 0 {
		m[[]uint8{0, 5, 9, 255}[r.Intn(4)]] = GenU8(r) // no such door: ignored
	}
	if r.Intn(4) == 0 {
		m[uint8(5+r.Intn(250))] = GenU8(r) // extra doors are ignored
	}
	return m
}

// GenCardNumber: an acceptable card number (not 0, 0xffffffff, 0x00ffffff).
func GenCardNumber(r *rand.Rand) uint32 {
	for {
		v := GenU32(r)
		if v != 0 && v != 0xffffffff && v != 0x00ffffff {
			return v
		}
	}
}

// GenArgs draws an argument tuple in the accepted domain of op.
func GenArgs(r *rand.Rand, op Op, serial uint32) Args {
	a := Args{Serial: serial}
	switch op {
	case SetAddress:
		a.IPs = [3][]byte{genIPv4(r), genIPv4(r), genIPv4(r)}
	case SetListener:
		if r.Intn(5) == 0 {
			a.AddrPort = "0.0.0.0:0"
		} else {
			ip := genIPv4(r)
			v, _ := ip4(ip)
			port := 1 + r.Intn(65535)
			if r.Intn(4) == 0 {
				port = pick(r, 1, 60000, 60001, 65535, 255, 256)
			}
			a.AddrPort = fmt.Sprintf("%d.%d.%d.%d:%d", v[0], v[1], v[2], v[3], port)
		}
		a.U8 = GenU8(r)
	case SetTime:
		a.Time = GenCivil(r)
	case GetDoorControlState, OpenDoor:
		a.U8 = GenU8(r)
	case SetDoorControlState:
		a.U8 = GenU8(r)
		a.State = r.Intn(4)
		a.U8b = GenU8(r)
	case GetCardByIndex, DeleteCard, GetEvent, SetEventIndex:
		a.U32 = GenU32(r)
	case GetCardByID:
		a.U32 = GenCardNumber(r)
	case PutCard:
		c := &Card{Number: GenCardNumber(r), From: GenDate(r), To: GenDate(r), Doors: genDoors(r)}
		switch r.Intn(4) {
		case 0:
			c.PIN = pick(r, uint32(0), 1, 999999, 65536, 0x0f423f, 7531)
		case 1:
			c.PIN = uint32(r.Intn(1000000))
		}
		if r.Intn(12) == 0 {
			c.From.Zero, c.From.ZK = true, r.Intn(4)
		}
		if r.Intn(12) == 0 {
			c.To.Zero, c.To.ZK = true, r.Intn(4)
		}
		a.Card = c
		switch r.Intn(5) {
		case 0:
			a.Formats = []int{0}
		case 1: // Wiegand-26 with a matching number
			a.Formats = []int{1}
			c.Number = uint32(r.Intn(256))*100000 + uint32(r.Intn(65536))
			if r.Intn(3) == 0 {
				c.Number = pick(r, uint32(25565535), 25500000, 65535, 100000, 1, 25565534, 10058400)
			}
			if c.Number == 0 {
				c.Number = 1
			}
		case 2:
			a.Formats = []int{1, 0}
		}
	case GetTimeProfile:
		a.U8 = GenU8(r)
	case SetTimeProfile:
		a.Profile = &Profile{ID: GenU8(r), Linked: GenU8(r), From: GenDate(r), To: GenDate(r), Weekdays: genWeekdays(r), Segments: genSegments(r)}
	case AddTask:
		a.Task = &Task{Type: r.Intn(13), Door: GenU8(r), From: GenDate(r), To: GenDate(r), Weekdays: genWeekdays(r), Start: GenHHmm(r), Cards: GenU8(r)}
		if r.Intn(10) == 0 {
			a.Task.From.Zero = true
		}
	case RecordSpecialEvents, SetPCControl:
		a.Bool = r.Intn(2) == 0
	case SetDoorPasscodes:
		a.U8 = uint8(1 + r.Intn(4))
		n := r.Intn(7)
		if r.Intn(25) == 0 {
			n = []int{255, 256, 257, 259, 260, 512, 1024}[r.Intn(7)] // a very long list: everything beyond the fourth is dropped
		}
		if n > 0 || r.Intn(2) == 0 {
			a.Passcodes = []uint32{}
		}
		for i := 0; i < n; i++ {
			switch r.Intn(4) {
			case 0:
				a.Passcodes = append(a.Passcodes, pick(r, uint32(0), 1, 999999, 1000000, 0xffffffff, 12345))
			default:
				a.Passcodes = append(a.Passcodes, uint32(r.Intn(1200000)))
			}
		}
	case SetInterlock:
		a.U8 = pick(r, uint8(0), 1, 2, 3, 4, 8)
	case ActivateKeypads:
		switch r.Intn(5) {
		case 0:
			a.NilMap = true
		default:
			a.Readers = map[uint8]bool{}
			for k := uint8(1); k <= 4; k++ {
				if r.Intn(3) > 0 {
					a.Readers[k] = r.Intn(2) == 0
				}
			}
		}
	}
	return a
}

// ---- replies --------------------------------------------------------------------------------

type ReplyOpts struct {
	OOD  bool // push one field out of its domain
	Hard bool // ... using only an invalid boolean byte or a non-decimal BCD nibble in a by-value field
	Junk bool // random bytes where no field lives
	V19  bool // protocol id 0x19
}

func putBCDDate(b []byte, y, m, d int) {
	b[0], b[1], b[2], b[3] = bcd2(y/100), bcd2(y%100), bcd2(m), bcd2(d)
}

func genField(r *rand.Rand, k Kind, b []byte) {
	switch k {
	case KU8:
		b[0] = GenU8(r)
	case KU32:
		le32(b, 0, GenU32(r))
	case KBool:
		b[0] = byte(r.Intn(2))
	case KDate:
		if r.Intn(8) == 0 {
			return // all-zero: no date
		}
		d := GenDate(r)
		putBCDDate(b, d.Y, d.M, d.D)
	case KDateTime:
		if r.Intn(8) == 0 {
			return
		}
		d := GenDate(r)
		putBCDDate(b, d.Y, d.M, d.D)
		b[4], b[5], b[6] = bcd2(r.Intn(24)), bcd2(r.Intn(60)), bcd2(r.Intn(60))
		if r.Intn(6) == 0 {
			b[4], b[5], b[6] = bcd2(pick(r, 0, 23)), bcd2(pick(r, 0, 59)), bcd2(pick(r, 0, 59))
		}
	case KSysDate:
		if r.Intn(8) == 0 {
			return
		}
		yy := r.Intn(69)
		if r.Intn(6) == 0 {
			yy = 69 + r.Intn(31)
		}
		m := 1 + r.Intn(12)
		d := 1 + r.Intn(daysIn(2000+yy, m))
		b[0], b[1], b[2] = bcd2(yy), bcd2(m), bcd2(d)
	case KSysTime:
		b[0], b[1], b[2] = bcd2(r.Intn(24)), bcd2(r.Intn(60)), bcd2(r.Intn(60))
	case KHHmm:
		h := GenHHmm(r)
		b[0], b[1] = bcd2(h.H), bcd2(h.M)
	case KPIN:
		v := uint32(r.Intn(1000000))
		if r.Intn(4) == 0 {
			v = pick(r, uint32(0), 999999, 0xffffff, 1000000, 65536, 1)
		}
		b[0], b[1], b[2] = byte(v), byte(v>>8), byte(v>>16)
	case KIPv4:
		r.Read(b[:4])
		switch r.Intn(8) {
		case 0:
			copy(b[:4], []byte{0, 0, 0, 0}) // 'not set'
		case 1:
			copy(b[:4], []byte{255, 255, 255, 255})
		}
	case KAddrPort, KMAC:
		r.Read(b[:6])
	case KVersion:
		r.Read(b[:2])
		if r.Intn(3) == 0 {
			b[0], b[1] = pick(r, byte(0x06), 0x08, 0x00, 0xff), pick(r, byte(0x62), 0x92, 0x00, 0xff)
		}
	}
}

func badNibble(r *rand.Rand, b []byte, n int) {
	if r.Intn(6) == 0 {
		// the whole field reads as erased or stuck memory
		v := []byte{0xff, 0xff, 0xaa, 0xee}[r.Intn(4)]
		for i := 0; i < n && i < len(b); i++ {
			b[i] = v
		}
		return
	}
	i := r.Intn(n)
	v := byte(10 + r.Intn(6))
	if r.Intn(2) == 0 {
		b[i] = (b[i] & 0x0f) | v<<4
	} else {
		b[i] = (b[i] & 0xf0) | v
	}
}

// spoil pushes the field out of its domain; it reports false if the kind has no out-of-domain values.
func spoil(r *rand.Rand, k Kind, b []byte, hardOnly bool) bool {
	switch k {
	case KBool:
		b[0] = byte(2 + r.Intn(254))
		return true
	case KDate:
		if hardOnly || r.Intn(2) == 0 {
			d := GenDate(r)
			putBCDDate(b, d.Y, d.M, d.D)
			badNibble(r, b, 4)
			return true
		}
		y := 1990 + r.Intn(60)
		switch r.Intn(5) {
		case 0:
			putBCDDate(b, y, over(r, 13), 1+r.Intn(28))
		case 1:
			putBCDDate(b, y, 1+r.Intn(12), over(r, 32))
		case 2:
			putBCDDate(b, y|1, 2, 29) // odd year: never leap
		case 3:
			putBCDDate(b, y, 0, 1+r.Intn(28))
		case 4:
			putBCDDate(b, y, 1+r.Intn(12), 0)
		}
		return true
	case KDateTime:
		d := GenDate(r)
		putBCDDate(b, d.Y, d.M, d.D)
		b[4], b[5], b[6] = bcd2(r.Intn(24)), bcd2(r.Intn(60)), bcd2(r.Intn(60))
		if r.Intn(4) == 0 {
			// around the 'no timestamp' encodings: an all-zero (or 2000-00-00) date in front of a time of day
			b[0], b[1], b[2], b[3] = pick(r, byte(0), 0x20), 0, 0, 0
			if hardOnly || r.Intn(2) == 0 {
				i := 4 + r.Intn(3)
				b[i] = (b[i] & 0x0f) | byte(10+r.Intn(6))<<4
			} else if b[4] == 0 && b[5] == 0 && b[6] == 0 {
				b[5] = 0x01
			}
			return true
		}
		if hardOnly || r.Intn(2) == 0 {
			badNibble(r, b, 7)
			return true
		}
		if r.Intn(5) == 0 {
			b[4], b[5], b[6] = 0x24, 0, 0 // 24:00:00 on a valid date
			return true
		}
		switch r.Intn(6) {
		case 0:
			b[4] = bcd2(over(r, 24))
		case 1:
			b[5] = bcd2(over(r, 60))
		case 2:
			b[6] = bcd2(over(r, 60))
		case 3:
			b[2] = bcd2(over(r, 13))
		case 4:
			b[3] = bcd2(over(r, 32))
		case 5:
			b[2], b[3] = 0x02, 0x30
		}
		return true
	case KSysDate:
		b[0], b[1], b[2] = bcd2(r.Intn(69)), bcd2(1+r.Intn(12)), bcd2(1+r.Intn(28))
		if hardOnly || r.Intn(2) == 0 {
			badNibble(r, b, 3)
			return true
		}
		switch r.Intn(3) {
		case 0:
			b[1] = bcd2(over(r, 13))
		case 1:
			b[2] = bcd2(over(r, 32))
		case 2:
			b[1] = 0
		}
		return true
	case KSysTime:
		if hardOnly || r.Intn(2) == 0 {
			badNibble(r, b, 3)
			return true
		}
		if r.Intn(4) == 0 {
			b[0], b[1], b[2] = 0x24, 0, 0 // 24:00:00 ends a time profile segment, it is no time of day
			return true
		}
		switch r.Intn(3) {
		case 0:
			b[0] = bcd2(over(r, 24))
		case 1:
			b[1] = bcd2(over(r, 60))
		case 2:
			b[2] = bcd2(over(r, 60))
		}
		return true
	case KHHmm:
		if hardOnly {
			return false
		}
		switch r.Intn(5) {
		case 0:
			badNibble(r, b, 2)
		case 1:
			b[0], b[1] = bcd2(r.Intn(24)), 0x60
		case 2:
			b[0], b[1] = 0x24, bcd2(1+r.Intn(59))
		case 3:
			b[0], b[1] = bcd2(over(r, 25)), bcd2(r.Intn(60))
		case 4:
			b[0], b[1] = bcd2(r.Intn(24)), bcd2(over(r, 61))
		}
		return true
	}
	return false
}

// GenReply draws a reply to the call (op, a) from the controller with the given serial number:
// a correct header followed by field values over their whole domains, sentinels boosted.
func GenReply(r *rand.Rand, op Op, a *Args, serial uint32, o ReplyOpts) []byte {
	b := make([]byte, 64)
	b[0] = 0x17
	if o.V19 {
		b[0] = 0x19
	}
	b[1] = op.Code()
	le32(b, 4, serial)
	fields := ReplyFields(op)
	covered := [64]bool{0: true, 1: true, 4: true, 5: true, 6: true, 7: true}
	for _, f := range fields {
		genField(r, f.Kind, b[f.Off:f.Off+f.Kind.Width()])
		for i := 0; i < f.Kind.Width(); i++ {
			covered[f.Off+i] = true
		}
	}

	// sentinels and echoes
	switch op {
	case GetCardByID:
		switch r.Intn(8) {
		case 0:
			le32(b, 8, 0)
		case 1:
			le32(b, 8, a.U32^uint32(1)<<uint(r.Intn(32)))
		case 2:
			le32(b, 8, 0xffffffff)
		default:
			le32(b, 8, a.U32)
		}
	case GetCardByIndex:
		switch r.Intn(8) {
		case 0:
			le32(b, 8, 0)
		case 1:
			le32(b, 8, 0xffffffff)
		}
	case GetTimeProfile:
		switch r.Intn(8) {
		case 0:
			b[8] = 0
		case 1:
			b[8] = a.U8 ^ byte(1<<uint(r.Intn(8)))
		default:
			b[8] = a.U8
		}
	case GetEvent:
		switch r.Intn(10) {
		case 0:
			le32(b, 8, 0)
		case 1:
			b[12] = 0xff
		case 2:
			le32(b, 8, 0)
			b[12] = 0xff
		default:
			if rd32(b, 8) == 0 {
				le32(b, 8, a.U32|1)
			}
			if b[12] == 0xff {
				b[12] = 1
			}
		}
	case GetStatus:
		if r.Intn(4) == 0 {
			le32(b, 8, 0)
		}
	case GetDoorControlState, SetDoorControlState:
		if r.Intn(4) > 0 {
			b[9] = byte(1 + r.Intn(3))
		}
	}

	if o.OOD || o.Hard {
		perm := r.Perm(len(fields))
		for _, i := range perm {
			f := fields[i]
			if spoil(r, f.Kind, b[f.Off:f.Off+f.Kind.Width()], o.Hard) {
				break
			}
		}
	}
	if o.Junk {
		for i := range b {
			if !covered[i] {
				b[i] = byte(r.Intn(256))
			}
		}
	}
	return b
}

// HasHardField: the reply layout has a field that can be malformed in the C03 sense.
func HasHardField(op Op) bool {
	for _, f := range ReplyFields(op) {
		switch f.Kind {
		case KBool, KDate, KDateTime, KSysDate, KSysTime:
			return true
		}
	}
	return false
}

// GenHostile draws arguments a careless or hostile caller might pass: nil maps, nil/short/IPv6
// addresses, zero and extreme dates and times, out-of-range enumeration values.
func GenHostile(r *rand.Rand, op Op, serial uint32) Args {
	a := GenArgs(r, op, serial)
	wild := func() int {
		return pick(r, -1, 4, 5, 13, 14, 255, 256, -128, 1<<31-1, -(1 << 31), 1000, 3, 0)
	}
	wildDate := func() Date {
		switch r.Intn(5) {
		case 0:
			return Date{Zero: true}
		case 1:
			return Date{Y: pick(r, 0, -1, 10000, 12345, 99999), M: pick(r, 0, 1, 12, 13, -1), D: pick(r, 0, 1, 31, 32, -1)}
		}
		return GenDate(r)
	}
	wildHHmm := func() HHmm {
		if r.Intn(2) == 0 {
			return HHmm{pick(r, -1, 24, 25, 99, 100, 255, -100), pick(r, -1, 59, 60, 61, 99, 100, 1000)}
		}
		return GenHHmm(r)
	}
	switch op {
	case SetAddress:
		odd := [][]byte{nil, {}, {1}, {1, 2, 3}, {1, 2, 3, 4, 5}, make([]byte, 16), make([]byte, 17), {0x20, 0x01, 0x0d, 0xb8, 0, 0, 0, 0, 0, 0, 0, 0, 0, 0, 0, 1}}
		for i := 0; i < 3; i++ {
			if r.Intn(2) == 0 {
				a.IPs[i] = append([]byte(nil), odd[r.Intn(len(odd))]...)
				if r.Intn(4) == 0 {
					a.IPs[i] = nil
				}
			}
		}
	case SetListener:
		a.AddrPort = pick(r, "", "0.0.0.0:0", "[::1]:60001", "[fe80::1%eth0]:60001", "[::ffff:10.0.0.1]:60001", "255.255.255.255:65535", "[::]:0", "10.0.0.1:0")
	case SetDoorControlState:
		a.State = wild()
	case SetTime:
		if r.Intn(2) == 0 {
			c := a.Time
			c.Unix = pick(r, int64(-62135596800), 253402300799, 253402300800, -62135596801, 1<<40, -(1 << 40), 0)
		}
	case PutCard:
		c := a.Card
		c.From, c.To = wildDate(), wildDate()
		if r.Intn(3) == 0 {
			c.Doors = nil
		}
		c.PIN = pick(r, uint32(0), 999999, 1000000, 0xffffffff, 0x00ffffff)
		a.Formats = pick(r, nil, []int{}, []int{2}, []int{255}, []int{1, 2, 0}, []int{-1})
	case SetTimeProfile:
		p := a.Profile
		p.From, p.To = wildDate(), wildDate()
		if r.Intn(3) == 0 {
			p.Weekdays = nil
		}
		switch r.Intn(4) {
		case 0:
			p.Segments = nil
		case 1:
			p.Segments = map[uint8]Segment{1: {wildHHmm(), wildHHmm()}, 2: {wildHHmm(), wildHHmm()}, 3: {wildHHmm(), wildHHmm()}}
		case 2:
			p.Segments = map[uint8]Segment{0: {}, 4: {wildHHmm(), wildHHmm()}, 255: {}}
		}
	case AddTask:
		t := a.Task
		t.Type = wild()
		t.From, t.To = wildDate(), wildDate()
		t.Start = wildHHmm()
		if r.Intn(2) == 0 {
			t.Weekdays = nil
		} else {
			t.Weekdays = map[int]bool{-1: true, 7: true, 100: true, 0: true}
		}
	case SetDoorPasscodes:
		a.U8 = GenU8(r)
		n := r.Intn(12)
		a.Passcodes = nil
		for i := 0; i < n; i++ {
			a.Passcodes = append(a.Passcodes, GenU32(r))
		}
	case SetInterlock:
		a.U8 = GenU8(r)
	case ActivateKeypads:
		if r.Intn(2) == 0 {
			a.NilMap, a.Readers = true, nil
		} else {
			a.Readers = map[uint8]bool{0: true, 5: true, 255: true, 1: r.Intn(2) == 0}
		}
	}
	if r.Intn(10) == 0 {
		a.Serial = 0
	}
	return a
}

// GenWild: a reply with a correct header for (op, serial) and arbitrary bytes behind it.
func GenWild(r *rand.Rand, op Op, serial uint32) []byte {
	b := make([]byte, 64)
	r.Read(b)
	b[0], b[1], b[2], b[3] = 0x17, op.Code(), 0, 0
	le32(b, 4, serial)
	// arbitrary bytes almost never pass the boolean and BCD checks: repair a random subset of fields
	for _, f := range ReplyFields(op) {
		if r.Intn(3) > 0 {
			for i := 0; i < f.Kind.Width(); i++ {
				b[f.Off+i] = 0
			}
			genField(r, f.Kind, b[f.Off:f.Off+f.Kind.Width()])
		}
	}
	return b
}
