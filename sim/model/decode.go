package model

import (
	"fmt"
	"sort"
	"strings"
)

type Kind int

const (
	KU8 Kind = iota
	KU32
	KBool
	KDate
	KDateTime
	KSysDate
	KSysTime
	KHHmm
	KPIN
	KIPv4
	KAddrPort
	KMAC
	KVersion
)

func (k Kind) Width() int {
	switch k {
	case KU8, KBool:
		return 1
	case KU32, KDate, KIPv4:
		return 4
	case KDateTime:
		return 7
	case KSysDate, KSysTime, KPIN:
		return 3
	case KHHmm, KVersion:
		return 2
	case KAddrPort, KMAC:
		return 6
	}
	return 0
}

type Field struct {
	Name string
	Off  int
	Kind Kind
}

var okOnly = []Field{{"ok", 8, KBool}}

var statusFields = []Field{
	{"ev.index", 8, KU32}, {"ev.type", 12, KU8}, {"ev.granted", 13, KBool}, {"ev.door", 14, KU8},
	{"ev.direction", 15, KU8}, {"ev.card", 16, KU32}, {"ev.timestamp", 20, KDateTime}, {"ev.reason", 27, KU8},
	{"doorstate1", 28, KBool}, {"doorstate2", 29, KBool}, {"doorstate3", 30, KBool}, {"doorstate4", 31, KBool},
	{"doorbutton1", 32, KBool}, {"doorbutton2", 33, KBool}, {"doorbutton3", 34, KBool}, {"doorbutton4", 35, KBool},
	{"syserror", 36, KU8}, {"systime", 37, KSysTime}, {"seq", 40, KU32}, {"special", 48, KU8},
	{"relay", 49, KU8}, {"input", 50, KU8}, {"sysdate", 51, KSysDate},
}

var cardFields = []Field{
	{"card", 8, KU32}, {"from", 12, KDate}, {"to", 16, KDate},
	{"door1", 20, KU8}, {"door2", 21, KU8}, {"door3", 22, KU8}, {"door4", 23, KU8}, {"pin", 24, KPIN},
}

var deviceFields = []Field{
	{"ip", 8, KIPv4}, {"mask", 12, KIPv4}, {"gateway", 16, KIPv4}, {"mac", 20, KMAC}, {"version", 26, KVersion}, {"date", 28, KDate},
}

var profileFields = []Field{
	{"id", 8, KU8}, {"from", 9, KDate}, {"to", 13, KDate},
	{"mon", 17, KBool}, {"tue", 18, KBool}, {"wed", 19, KBool}, {"thu", 20, KBool}, {"fri", 21, KBool}, {"sat", 22, KBool}, {"sun", 23, KBool},
	{"seg1start", 24, KHHmm}, {"seg1end", 26, KHHmm}, {"seg2start", 28, KHHmm}, {"seg2end", 30, KHHmm}, {"seg3start", 32, KHHmm}, {"seg3end", 34, KHHmm},
	{"linked", 36, KU8},
}

var eventFields = []Field{
	{"index", 8, KU32}, {"type", 12, KU8}, {"granted", 13, KBool}, {"door", 14, KU8}, {"direction", 15, KU8},
	{"card", 16, KU32}, {"timestamp", 20, KDateTime}, {"reason", 27, KU8},
}

var doorFields = []Field{{"door", 8, KU8}, {"state", 9, KU8}, {"delay", 10, KU8}}

// ReplyFields is the layout of the operation's reply after the 8-byte header.
func ReplyFields(op Op) []Field {
	switch op {
	case GetDevices, GetDevice:
		return deviceFields
	case GetListener:
		return []Field{{"addrport", 8, KAddrPort}, {"interval", 14, KU8}}
	case GetTime, SetTime:
		return []Field{{"datetime", 8, KDateTime}}
	case GetDoorControlState, SetDoorControlState:
		return doorFields
	case GetStatus:
		return statusFields
	case GetCards:
		return []Field{{"n", 8, KU32}}
	case GetCardByIndex, GetCardByID:
		return cardFields
	case GetTimeProfile:
		return profileFields
	case GetEvent:
		return eventFields
	case GetEventIndex:
		return []Field{{"index", 8, KU32}}
	case SetAddress:
		return nil
	}
	return okOnly
}

// FV is the reference reading of one reply field.
type FV struct {
	Vals []string // acceptable reported values
	OOD  bool     // outside its domain: the call may fail instead
	Hard bool     // invalid boolean byte or non-decimal BCD nibble (the 'malformed field' of C03)
}

func nib(b byte) (int, int, bool) {
	h, l := int(b>>4), int(b&0x0f)
	return h, l, h <= 9 && l <= 9
}

func bcdByte(b byte) (int, bool) {
	h, l, ok := nib(b)
	return h*10 + l, ok
}

func daysIn(y, m int) int {
	switch m {
	case 1, 3, 5, 7, 8, 10, 12:
		return 31
	case 4, 6, 9, 11:
		return 30
	case 2:
		if y%4 == 0 && (y%100 != 0 || y%400 == 0) {
			return 29
		}
		return 28
	}
	return 0
}

// ValidDate: a calendar date of the proleptic Gregorian calendar.
func ValidDate(y, m, d int) bool {
	return m >= 1 && m <= 12 && d >= 1 && d <= daysIn(y, m)
}

func decodeDate(b []byte) FV {
	var v [4]int
	for i := 0; i < 4; i++ {
		x, ok := bcdByte(b[i])
		if !ok {
			return FV{Vals: []string{""}, OOD: true, Hard: true}
		}
		v[i] = x
	}
	y, m, d := v[0]*100+v[1], v[2], v[3]
	if y == 0 && m == 0 && d == 0 {
		return FV{Vals: []string{""}}
	}
	if !ValidDate(y, m, d) {
		return FV{Vals: []string{""}, OOD: true}
	}
	s := fmt.Sprintf("%04d-%02d-%02d", y, m, d)
	if y == 0 || (y == 1 && m == 1 && d == 1) {
		// below the stated date domain (0001-01-02..): faithful, 'no date' or failure are all accepted
		return FV{Vals: []string{s, ""}, OOD: true}
	}
	return FV{Vals: []string{s}}
}

func decodeDateTime(b []byte) FV {
	var v [7]int
	zero := true
	for i := 0; i < 7; i++ {
		if b[i] != 0 {
			zero = false
		}
	}
	if zero {
		return FV{Vals: []string{""}}
	}
	for i := 0; i < 7; i++ {
		x, ok := bcdByte(b[i])
		if !ok {
			return FV{Vals: []string{""}, OOD: true, Hard: true}
		}
		v[i] = x
	}
	y, mo, d, h, mi, s := v[0]*100+v[1], v[2], v[3], v[4], v[5], v[6]
	if !ValidDate(y, mo, d) || h > 23 || mi > 59 || s > 59 {
		return FV{Vals: []string{""}, OOD: true}
	}
	str := fmt.Sprintf("%04d-%02d-%02d %02d:%02d:%02d", y, mo, d, h, mi, s)
	if y == 0 || (y == 1 && mo == 1 && d == 1) {
		return FV{Vals: []string{str, ""}, OOD: true}
	}
	return FV{Vals: []string{str}}
}

func decodeHHmm(b []byte) FV {
	h, ok1 := bcdByte(b[0])
	m, ok2 := bcdByte(b[1])
	if !ok1 || !ok2 {
		return FV{Vals: []string{"00:00"}, OOD: true}
	}
	if h > 24 || m > 59 || (h == 24 && m != 0) {
		return FV{Vals: []string{"00:00"}, OOD: true}
	}
	return FV{Vals: []string{fmt.Sprintf("%02d:%02d", h, m)}}
}

func decodeField(k Kind, b []byte) FV {
	switch k {
	case KU8:
		return FV{Vals: []string{fmt.Sprint(b[0])}}
	case KU32:
		return FV{Vals: []string{fmt.Sprint(rd32(b, 0))}}
	case KBool:
		switch b[0] {
		case 0:
			return FV{Vals: []string{"false"}}
		case 1:
			return FV{Vals: []string{"true"}}
		}
		return FV{Vals: []string{"false"}, OOD: true, Hard: true}
	case KDate:
		return decodeDate(b)
	case KDateTime:
		return decodeDateTime(b)
	case KHHmm:
		return decodeHHmm(b)
	case KPIN:
		return FV{Vals: []string{fmt.Sprint(uint32(b[0]) | uint32(b[1])<<8 | uint32(b[2])<<16)}}
	case KIPv4:
		return FV{Vals: []string{fmt.Sprintf("%d.%d.%d.%d", b[0], b[1], b[2], b[3])}}
	case KAddrPort:
		return FV{Vals: []string{fmt.Sprintf("%d.%d.%d.%d:%d", b[0], b[1], b[2], b[3], int(b[4])|int(b[5])<<8)}}
	case KMAC:
		return FV{Vals: []string{fmt.Sprintf("%02x:%02x:%02x:%02x:%02x:%02x", b[0], b[1], b[2], b[3], b[4], b[5])}}
	case KVersion:
		return FV{Vals: []string{fmt.Sprint(int(b[0])<<8 | int(b[1]))}}
	}
	return FV{}
}

// sysDateTime combines the controller's system date (yymmdd) and time (hhmmss).
func sysDateTime(db, tb []byte) FV {
	if db[0] == 0 && db[1] == 0 && db[2] == 0 {
		// 'no date'; a time of day that is itself malformed may still make the call fail
		fv := FV{Vals: []string{""}}
		for i := 0; i < 3; i++ {
			if _, ok := bcdByte(tb[i]); !ok {
				fv.OOD, fv.Hard = true, true
			}
		}
		h, _ := bcdByte(tb[0])
		m, _ := bcdByte(tb[1])
		s, _ := bcdByte(tb[2])
		if h > 23 || m > 59 || s > 59 {
			fv.OOD = true
		}
		return fv
	}
	var v [6]int
	for i := 0; i < 3; i++ {
		x, ok := bcdByte(db[i])
		y, ok2 := bcdByte(tb[i])
		if !ok || !ok2 {
			return FV{Vals: []string{""}, OOD: true, Hard: true}
		}
		v[i], v[3+i] = x, y
	}
	yy, mo, d, h, mi, s := v[0], v[1], v[2], v[3], v[4], v[5]
	if h > 23 || mi > 59 || s > 59 {
		return FV{Vals: []string{""}, OOD: true}
	}
	var vals []string
	ood := false
	years := []int{2000 + yy}
	if yy >= 69 {
		years = []int{1900 + yy, 2000 + yy}
	}
	for _, y := range years {
		if ValidDate(y, mo, d) {
			vals = append(vals, fmt.Sprintf("%04d-%02d-%02d %02d:%02d:%02d", y, mo, d, h, mi, s))
		} else {
			ood = true
		}
	}
	if len(vals) == 0 {
		return FV{Vals: []string{""}, OOD: true}
	}
	if ood {
		vals = append(vals, "")
	}
	return FV{Vals: vals, OOD: ood}
}

// Expect is what the reference allows a call to return.
type Expect struct {
	Fail  int                 // 0: must succeed, 1: may fail, 2: must fail
	NilOK bool                // (nil, nil) is an acceptable result
	ValOK bool                // a value is an acceptable result
	F     map[string][]string // acceptable values per result field
	Hard  bool                // a malformed (C03 sense) field is present
	Sent  bool                // the failure is a sentinel rule (echo mismatch, overwritten event), not a malformed datagram
	Why   string
}

// Serial is the controller serial number carried by a 64-byte message.
func Serial(d []byte) uint32 { return rd32(d, 4) }

// Ctx is the part of the client configuration a result may depend on.
type Ctx struct {
	Name  string   // configured name of the controller ("" if none)
	Ports []uint16 // acceptable ports for the completed address
}

// Header checks of a reply that passes as S's: protocol id and function code.
func HeaderOK(op Op, reply []byte) bool {
	if len(reply) != 64 {
		return false
	}
	code := op.Code()
	if reply[1] != code {
		return false
	}
	if reply[0] == 0x17 {
		return true
	}
	return reply[0] == 0x19 && code == 0x20
}

// Decode gives the reference reading of a 64-byte reply with a correct header, for the call (op, a).
func Decode(op Op, a *Args, reply []byte, ctx Ctx) Expect {
	e := Expect{F: map[string][]string{}, ValOK: true}
	f := map[string]FV{}
	for _, fl := range ReplyFields(op) {
		v := decodeField(fl.Kind, reply[fl.Off:fl.Off+fl.Kind.Width()])
		f[fl.Name] = v
		if v.OOD {
			e.Fail = 1
			e.Why += " ood:" + fl.Name
		}
		if v.Hard {
			e.Hard = true
		}
	}
	serial := fmt.Sprint(rd32(reply, 4))
	one := func(s string) []string { return []string{s} }
	cp := func(names ...string) {
		for _, n := range names {
			e.F[n] = f[n].Vals
		}
	}

	switch op {
	case GetDevices, GetDevice:
		e.F["serial"] = one(serial)
		e.F["name"] = one(ctx.Name)
		cp("ip", "mask", "gateway", "mac", "version", "date")
		var addrs []string
		for _, p := range ctx.Ports {
			addrs = append(addrs, fmt.Sprintf("%s:%d", f["ip"].Vals[0], p))
		}
		e.F["address"] = addrs
	case SetAddress:
		e.F["serial"] = one(fmt.Sprint(a.Serial))
		e.F["ok"] = one("true")
	case GetListener:
		cp("addrport", "interval")
	case GetTime, SetTime:
		e.F["serial"] = one(serial)
		cp("datetime")
	case GetDoorControlState, SetDoorControlState:
		e.F["serial"] = one(serial)
		cp("door", "state", "delay")
	case OpenDoor:
		e.F["serial"] = one(serial)
		cp("ok")
	case GetStatus:
		e.F["serial"] = one(serial)
		cp("doorstate1", "doorstate2", "doorstate3", "doorstate4", "doorbutton1", "doorbutton2", "doorbutton3", "doorbutton4",
			"syserror", "seq", "special", "relay", "input")
		sdt := sysDateTime(reply[51:54], reply[37:40])
		if sdt.OOD {
			e.Fail = 1
			e.Why += " ood:sysdatetime"
		}
		if sdt.Hard {
			e.Hard = true
		}
		e.F["sysdatetime"] = sdt.Vals
		if rd32(reply, 8) != 0 {
			cp("ev.index", "ev.type", "ev.granted", "ev.door", "ev.direction", "ev.card", "ev.timestamp", "ev.reason")
		} else {
			for _, n := range []string{"ev.index", "ev.type", "ev.door", "ev.direction", "ev.card", "ev.reason"} {
				e.F[n] = one("0")
			}
			e.F["ev.granted"] = one("false")
			e.F["ev.timestamp"] = one("")
		}
	case GetCards:
		cp("n")
	case GetCardByIndex, GetCardByID:
		card := rd32(reply, 8)
		switch {
		case card == 0, op == GetCardByIndex && card == 0xffffffff:
			e.NilOK, e.ValOK = true, false
		case op == GetCardByID && card != a.U32:
			e.Fail, e.ValOK, e.Sent = 2, false, true
			e.Why += " echoed card number differs"
		default:
			cp("card", "from", "to", "door1", "door2", "door3", "door4", "pin")
		}
	case GetTimeProfile:
		id := reply[8]
		switch {
		case id == 0:
			e.NilOK, e.ValOK = true, false
		case id != a.U8:
			e.Fail, e.ValOK, e.Sent = 2, false, true
			e.Why += " echoed profile id differs"
		default:
			cp("id", "linked", "from", "to", "mon", "tue", "wed", "thu", "fri", "sat", "sun",
				"seg1start", "seg1end", "seg2start", "seg2end", "seg3start", "seg3end")
		}
	case GetEvent:
		idx, typ := rd32(reply, 8), reply[12]
		switch {
		case typ == 0xff && idx == 0:
			e.Fail, e.NilOK, e.ValOK = 1, true, false
		case typ == 0xff:
			e.Fail, e.ValOK, e.Sent = 2, false, true
			e.Why += " overwritten event"
		case idx == 0:
			e.NilOK, e.ValOK = true, false
		default:
			e.F["serial"] = one(serial)
			cp("index", "type", "granted", "door", "direction", "card", "timestamp", "reason")
		}
	case GetEventIndex:
		e.F["serial"] = one(serial)
		cp("index")
	case SetEventIndex:
		e.F["serial"] = one(serial)
		e.F["index"] = one(fmt.Sprint(a.U32))
		e.F["changed"] = f["ok"].Vals
	default:
		cp("ok")
	}
	return e
}

// Obs is what a call was observed to return, in the reference's canonical vocabulary.
type Obs struct {
	Err   string            `json:"err,omitempty"`
	Nil   bool              `json:"nil,omitempty"`
	F     map[string]string `json:"f,omitempty"`
	Panic string            `json:"panic,omitempty"`
}

func (o Obs) Failed() bool { return o.Err != "" }

// Check compares an observation with the expectation; "" means acceptable, otherwise the
// name of the first offending aspect (stable: used as the violation signature).
func (e Expect) Check(o Obs) (aspect, detail string) {
	if o.Failed() {
		if e.Fail == 0 {
			return "unexpected-error", o.Err
		}
		return "", ""
	}
	if e.Fail == 2 {
		return "missing-error", "call succeeded; reference says it must fail:" + e.Why
	}
	if o.Nil {
		if !e.NilOK {
			return "unexpected-nil", "nil result"
		}
		return "", ""
	}
	if !e.ValOK {
		return "unexpected-value", fmt.Sprintf("value %v where reference expects nil/none", o.F)
	}
	keys := make([]string, 0, len(e.F))
	for k := range e.F {
		keys = append(keys, k)
	}
	sort.Strings(keys)
	for _, k := range keys {
		got, ok := o.F[k]
		if !ok {
			return "field:" + k, "missing in observation"
		}
		match := len(e.F[k]) == 0 // no alternatives listed: any value is acceptable
		for _, w := range e.F[k] {
			if w == got {
				match = true
				break
			}
		}
		if !match {
			return "field:" + k, fmt.Sprintf("got %q want %s", got, strings.Join(e.F[k], " | "))
		}
	}
	return "", ""
}
