// Package model is an executable reference of the UT0311-L0x protocol as the properties state
// it: request layouts, argument validation, reply layouts, sentinels, routing, event validity.
// It imports nothing from the library under test.
package model

import "fmt"

type Op int

const (
	GetDevices Op = iota
	GetDevice
	SetAddress
	GetListener
	SetListener
	GetTime
	SetTime
	GetDoorControlState
	SetDoorControlState
	GetStatus
	GetCards
	GetCardByIndex
	GetCardByID
	PutCard
	DeleteCard
	DeleteCards
	GetTimeProfile
	SetTimeProfile
	ClearTimeProfiles
	ClearTaskList
	AddTask
	RefreshTaskList
	RecordSpecialEvents
	GetEvent
	GetEventIndex
	SetEventIndex
	SetDoorPasscodes
	OpenDoor
	SetPCControl
	SetInterlock
	ActivateKeypads
	RestoreDefaultParameters
	NumOps
)

var opNames = [...]string{
	"GetDevices", "GetDevice", "SetAddress", "GetListener", "SetListener", "GetTime", "SetTime",
	"GetDoorControlState", "SetDoorControlState", "GetStatus", "GetCards", "GetCardByIndex", "GetCardByID",
	"PutCard", "DeleteCard", "DeleteCards", "GetTimeProfile", "SetTimeProfile", "ClearTimeProfiles",
	"ClearTaskList", "AddTask", "RefreshTaskList", "RecordSpecialEvents", "GetEvent", "GetEventIndex",
	"SetEventIndex", "SetDoorPasscodes", "OpenDoor", "SetPCControl", "SetInterlock", "ActivateKeypads",
	"RestoreDefaultParameters",
}

func (o Op) String() string {
	if o >= 0 && int(o) < len(opNames) {
		return opNames[o]
	}
	return fmt.Sprintf("Op(%d)", int(o))
}

func (o Op) MarshalText() ([]byte, error) { return []byte(o.String()), nil }
func (o *Op) UnmarshalText(b []byte) error {
	for i, n := range opNames {
		if n == string(b) {
			*o = Op(i)
			return nil
		}
	}
	return fmt.Errorf("unknown op %q", b)
}

// Code is the protocol function code of the operation's request (and of its reply).
func (o Op) Code() byte {
	switch o {
	case GetDevices, GetDevice:
		return 0x94
	case SetAddress:
		return 0x96
	case GetListener:
		return 0x92
	case SetListener:
		return 0x90
	case GetTime:
		return 0x32
	case SetTime:
		return 0x30
	case GetDoorControlState:
		return 0x82
	case SetDoorControlState:
		return 0x80
	case GetStatus:
		return 0x20
	case GetCards:
		return 0x58
	case GetCardByIndex:
		return 0x5c
	case GetCardByID:
		return 0x5a
	case PutCard:
		return 0x50
	case DeleteCard:
		return 0x52
	case DeleteCards:
		return 0x54
	case GetTimeProfile:
		return 0x98
	case SetTimeProfile:
		return 0x88
	case ClearTimeProfiles:
		return 0x8a
	case ClearTaskList:
		return 0xa6
	case AddTask:
		return 0xa8
	case RefreshTaskList:
		return 0xac
	case RecordSpecialEvents:
		return 0x8e
	case GetEvent:
		return 0xb0
	case GetEventIndex:
		return 0xb4
	case SetEventIndex:
		return 0xb2
	case SetDoorPasscodes:
		return 0x8c
	case OpenDoor:
		return 0x40
	case SetPCControl:
		return 0xa0
	case SetInterlock:
		return 0xa2
	case ActivateKeypads:
		return 0xa4
	case RestoreDefaultParameters:
		return 0xc8
	}
	return 0
}

// HasReply: every operation but SetAddress waits for a reply.
func (o Op) HasReply() bool { return o != SetAddress }

// Magic word of destructive operations.
const Magic = 0x55aaaa55

// Date is a civil date; Zero means the 'no date' value.
type Date struct {
	Y, M, D int
	Zero    bool `json:",omitempty"`
	// ZK: how the harness spells the zero 'no date' value - 0: types.Date{}; 1, 2, 3: the zero instant carrying a
	// Location (time.Time{}.Local(), time.Time{}.In(fixed zone), time.Unix(-62135596800, 0))
	ZK int `json:",omitempty"`
}

func (d Date) String() string {
	if d.Zero {
		return ""
	}
	return fmt.Sprintf("%04d-%02d-%02d", d.Y, d.M, d.D)
}

type HHmm struct{ H, M int }

func (h HHmm) String() string { return fmt.Sprintf("%02d:%02d", h.H, h.M) }

// Civil is a civil date-time plus the recipe for the time.Time the harness passes to SetTime.
type Civil struct {
	Y, Mo, D, H, Mi, S int
	Nsec               int    `json:",omitempty"`
	Zone               string `json:",omitempty"` // IANA name; "" = fixed offset
	Offset             int    `json:",omitempty"` // seconds east of UTC when Zone == ""
	Unix               int64  // the instant
}

type Segment struct{ Start, End HHmm }

type Card struct {
	Number   uint32
	From, To Date
	Doors    map[uint8]uint8 // nil allowed
	PIN      uint32
}

type Profile struct {
	ID, Linked uint8
	From, To   Date
	Weekdays   map[int]bool      // time.Weekday numbering (0 = Sunday); nil allowed
	Segments   map[uint8]Segment // nil allowed
}

type Task struct {
	Type     int
	Door     uint8
	From, To Date
	Weekdays map[int]bool
	Start    HHmm
	Cards    uint8
}

// Args is the argument tuple of one API call, in plain data.
type Args struct {
	Serial    uint32         `json:"serial"`
	U32       uint32         `json:"u32,omitempty"` // card number / index
	U8        uint8          `json:"u8,omitempty"`  // door / profile / interval / interlock
	U8b       uint8          `json:"u8b,omitempty"` // delay
	State     int            `json:"state,omitempty"`
	Bool      bool           `json:"bool,omitempty"`
	IPs       [3][]byte      `json:"ips,omitempty"`  // SetAddress: address, mask, gateway as net.IP bytes
	AddrPort  string         `json:"addr,omitempty"` // SetListener: netip.AddrPort text, "" = zero value
	Time      *Civil         `json:"time,omitempty"`
	Card      *Card          `json:"card,omitempty"`
	Formats   []int          `json:"formats,omitempty"`
	Profile   *Profile       `json:"profile,omitempty"`
	Task      *Task          `json:"task,omitempty"`
	Passcodes []uint32       `json:"passcodes,omitempty"`
	Readers   map[uint8]bool `json:"readers,omitempty"`
	NilMap    bool           `json:"nilmap,omitempty"` // Readers (ActivateKeypads) is a nil map
}
