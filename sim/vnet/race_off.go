//go:build !race

package vnet

import "unsafe"

// RaceBuild reports whether the binary carries the race detector.
const RaceBuild = false

func raceDisable()                 {}
func raceEnable()                  {}
func raceAcquire(p unsafe.Pointer) {}
func raceRelease(p unsafe.Pointer) {}
func raceErrors() int              { return 0 }
func raceSync(p unsafe.Pointer)    {}
func RaceErrors() int              { return 0 }
func RaceDisable()                 {}
func RaceEnable()                  {}

func HandOver(p unsafe.Pointer) {}
func TakeOver(p unsafe.Pointer) {}

func raceWriteRange(b []byte, n int) {}
func raceReadRange(b []byte)         {}
