package vnet

import (
	"sync"
	"context"
	"io"
	"net"
	"net/netip"
	"os"
	"runtime"
	"syscall"
	"time"
	"unsafe"
)

// post hands a request to the scheduler and blocks until it is completed.
// The caller must be inside a raceDisable window.
func post(s *Sim, r *req) resp {
	if s == nil {
		runtime.Goexit()
	}
	if !s.running.Load() {
		// before the scheduler runs there is one goroutine only (the harness constructing its clients): a lock taken
		// or a scheduling point met in a constructor of the library has nobody to wait for
		switch r.kind {
		case rLock, rUnlock, rRLock, rRUnlock, rYield:
			return resp{}
		}
	}
	if r.g == nil {
		r.g = s.me()
	}
	r.wake = make(chan resp, 1)
	s.inbox <- r
	p := <-r.wake
	if p.ended {
		runtime.Goexit()
	}
	return p
}

func (e *kerr) toErr(netw string, src, dst net.Addr) error {
	if e == nil {
		return nil
	}
	var inner error
	switch e.kind {
	case "timeout":
		inner = os.ErrDeadlineExceeded
	case "closed":
		inner = net.ErrClosed
	case "eof":
		return io.EOF
	case "other":
		inner = &simError{e.msg}
	default:
		call := e.op
		switch e.op {
		case "listen", "dial":
			call = "bind"
			if e.errno == syscall.ECONNREFUSED {
				call = "connect"
			}
		case "set":
			call = "setsockopt"
		case "write":
			call = "sendto"
		case "read":
			call = "recvfrom"
		}
		inner = os.NewSyscallError(call, e.errno)
	}
	return &net.OpError{Op: e.op, Net: netw, Source: nonNil(src), Addr: nonNil(dst), Err: inner}
}

func nonNil(a net.Addr) net.Addr {
	switch v := a.(type) {
	case *net.UDPAddr:
		if v == nil {
			return nil
		}
	case *net.TCPAddr:
		if v == nil {
			return nil
		}
	}
	return a
}

type simError struct{ s string }

func (e *simError) Error() string { return e.s }

func udpAddr(a netip.AddrPort) *net.UDPAddr {
	if !a.IsValid() {
		return nil
	}
	b := a.Addr().As4()
	return &net.UDPAddr{IP: net.IPv4(b[0], b[1], b[2], b[3]).To4(), Port: int(a.Port())}
}

func tcpAddr(a netip.AddrPort) *net.TCPAddr {
	if !a.IsValid() {
		return nil
	}
	b := a.Addr().As4()
	return &net.TCPAddr{IP: net.IPv4(b[0], b[1], b[2], b[3]).To4(), Port: int(a.Port())}
}

func fromIP(ip net.IP, port int) (netip.AddrPort, bool) {
	if len(ip) == 0 {
		return netip.AddrPortFrom(netip.IPv4Unspecified(), uint16(port)), true
	}
	a, ok := netip.AddrFromSlice(ip)
	if !ok {
		return netip.AddrPort{}, false
	}
	return netip.AddrPortFrom(a.Unmap(), uint16(port)), true
}

// ---- UDP ------------------------------------------------------------------------------------

// UDPConn stands in for *net.UDPConn.
type UDPConn struct {
	k *Socket
}

// Sock exposes the simulated socket (harness use).
func (c *UDPConn) Sock() *Socket { return c.k }

func ListenUDP(network string, laddr *net.UDPAddr) (*UDPConn, error) {
	switch network {
	case "udp", "udp4":
	case "udp6":
		return nil, &net.OpError{Op: "listen", Net: network, Err: syscall.EAFNOSUPPORT}
	default:
		return nil, &net.OpError{Op: "listen", Net: network, Err: net.UnknownNetworkError(network)}
	}
	raceDisable()
	defer raceEnable()
	var local netip.AddrPort
	if laddr == nil {
		local = netip.AddrPortFrom(netip.IPv4Unspecified(), 0)
	} else {
		ip := append(net.IP(nil), laddr.IP...)
		l, ok := fromIP(ip, laddr.Port)
		if !ok || laddr.Port < 0 || laddr.Port > 65535 {
			return nil, &net.OpError{Op: "listen", Net: network, Err: &net.AddrError{Err: "invalid address", Addr: "?"}}
		}
		local = l
	}
	p := post(current(), &req{kind: rListenUDP, local: local, proto: "udp"})
	if p.err != nil {
		return nil, p.err.toErr(network, nil, udpAddr(local))
	}
	return &UDPConn{k: p.sock}, nil
}

func ListenPacket(network, address string) (net.PacketConn, error) {
	var lc ListenConfig
	return lc.ListenPacket(context.Background(), network, address)
}

// ListenConfig stands in for net.ListenConfig (same field names); only packet sockets are simulated.
type ListenConfig struct {
	Control         func(network, address string, c syscall.RawConn) error
	KeepAlive       time.Duration
	KeepAliveConfig net.KeepAliveConfig
}

// controlReuse runs a Control callback of the library for real against a throw-away kernel socket
// and reports whether it set SO_REUSEADDR.
func controlReuse(control func(network, address string, c syscall.RawConn) error, proto, address string) (bool, error) {
	if control == nil {
		return false, nil
	}
	typ := syscall.SOCK_DGRAM
	if proto == "tcp" {
		typ = syscall.SOCK_STREAM
	}
	fd, serr := syscall.Socket(syscall.AF_INET, typ, 0)
	if serr != nil {
		return false, os.NewSyscallError("socket", serr)
	}
	defer syscall.Close(fd)
	if cerr := control(proto+"4", address, &rawConn{fd: fd}); cerr != nil {
		return false, cerr
	}
	if v, gerr := syscall.GetsockoptInt(fd, syscall.SOL_SOCKET, syscall.SO_REUSEADDR); gerr == nil && v != 0 {
		return true, nil
	}
	return false, nil
}

func (lc *ListenConfig) ListenPacket(ctx context.Context, network, address string) (net.PacketConn, error) {
	switch network {
	case "udp", "udp4":
	case "udp6":
		return nil, &net.OpError{Op: "listen", Net: network, Err: syscall.EAFNOSUPPORT}
	default:
		return nil, &net.OpError{Op: "listen", Net: network, Err: net.UnknownNetworkError(network)}
	}
	ap, err := parseListenAddr(address)
	if err != nil {
		return nil, &net.OpError{Op: "listen", Net: network, Err: err}
	}
	reuse, cerr := controlReuse(lc.Control, "udp", address)
	if cerr != nil {
		return nil, &net.OpError{Op: "listen", Net: network, Err: cerr}
	}
	raceDisable()
	defer raceEnable()
	p := post(current(), &req{kind: rListenUDP, local: ap, proto: "udp", reuse: reuse})
	if p.err != nil {
		return nil, p.err.toErr(network, nil, udpAddr(ap))
	}
	return &UDPConn{k: p.sock}, nil
}

// Listen (stream listeners) is not simulated: the library never accepts connections.
func (lc *ListenConfig) Listen(ctx context.Context, network, address string) (net.Listener, error) {
	return nil, &net.OpError{Op: "listen", Net: network, Err: &simError{"stream listeners are not simulated"}}
}

func parseListenAddr(address string) (netip.AddrPort, error) {
	ap, err := netip.ParseAddrPort(address)
	if err == nil {
		ap = netip.AddrPortFrom(ap.Addr().Unmap(), ap.Port())
		if !ap.Addr().Is4() {
			return ap, syscall.EAFNOSUPPORT
		}
		return ap, nil
	}
	if address == "" || address[0] == ':' {
		n := 0
		for _, ch := range address[min(1, len(address)):] {
			if ch < '0' || ch > '9' || n > 65535 {
				return netip.AddrPort{}, err
			}
			n = n*10 + int(ch-'0')
		}
		if n > 65535 {
			return netip.AddrPort{}, err
		}
		return netip.AddrPortFrom(netip.IPv4Unspecified(), uint16(n)), nil
	}
	return netip.AddrPort{}, err
}

func DialUDP(network string, laddr, raddr *net.UDPAddr) (*UDPConn, error) {
	if raddr == nil {
		return nil, &net.OpError{Op: "dial", Net: network, Err: &simError{"missing address"}}
	}
	d := Dialer{}
	if laddr != nil {
		d.LocalAddr = laddr
	}
	c, err := d.Dial(network, raddr.String())
	if err != nil {
		return nil, err
	}
	return c.(*UDPConn), nil
}

func (c *UDPConn) ok() bool { return c != nil && c.k != nil }

func (c *UDPConn) sync() {
	if RaceBuild {
		raceSync(unsafe.Pointer(&c.k.sync))
	}
}

func (c *UDPConn) netw() string { return "udp" }

func (c *UDPConn) readT(b []byte) (int, netip.AddrPort, bool, error) {
	if !c.ok() {
		return 0, netip.AddrPort{}, false, syscall.EINVAL
	}
	c.sync()
	raceDisable()
	p := post(current(), &req{kind: rRead, sock: c.k, n: len(b)})
	var err error
	if p.err != nil {
		err = p.err.toErr("udp", udpAddr(c.k.local), udpAddr(c.k.remote))
	} else {
		copy(b, p.data)
		c.k.filled = append(c.k.filled, b[:p.n:p.n])
	}
	raceEnable()
	if p.err == nil {
		raceWriteRange(b, p.n)
	}
	c.sync()
	return p.n, p.from, p.trunc, err
}

func (c *UDPConn) read(b []byte) (int, netip.AddrPort, error) {
	n, from, _, err := c.readT(b)
	return n, from, err
}

func (c *UDPConn) ReadFromUDP(b []byte) (int, *net.UDPAddr, error) {
	n, from, err := c.read(b)
	if err != nil {
		return n, nil, err
	}
	return n, udpAddr(from), nil
}

func (c *UDPConn) ReadFromUDPAddrPort(b []byte) (int, netip.AddrPort, error) {
	return c.read(b)
}

func (c *UDPConn) ReadFrom(b []byte) (int, net.Addr, error) {
	n, from, err := c.read(b)
	if err != nil {
		return n, nil, err
	}
	return n, udpAddr(from), nil
}

func (c *UDPConn) Read(b []byte) (int, error) {
	n, _, err := c.read(b)
	return n, err
}

func (c *UDPConn) ReadMsgUDP(b, oob []byte) (n, oobn, flags int, addr *net.UDPAddr, err error) {
	n, flags, from, err := c.readMsg(b)
	if err != nil {
		return n, 0, flags, nil, err
	}
	return n, 0, flags, udpAddr(from), nil
}

func (c *UDPConn) ReadMsgUDPAddrPort(b, oob []byte) (n, oobn, flags int, addr netip.AddrPort, err error) {
	n, flags, from, err := c.readMsg(b)
	return n, 0, flags, from, err
}

// readMsg: recvmsg(2) reports a datagram that did not fit the buffer with MSG_TRUNC.
func (c *UDPConn) readMsg(b []byte) (int, int, netip.AddrPort, error) {
	n, from, trunc, err := c.readT(b)
	flags := 0
	if err == nil && trunc {
		flags |= syscall.MSG_TRUNC
	}
	return n, flags, from, err
}

func (c *UDPConn) write(b []byte, to netip.AddrPort, hasTo bool) (int, error) {
	if !c.ok() {
		return 0, syscall.EINVAL
	}
	c.sync()
	raceReadRange(b)
	raceDisable()
	buf := append([]byte(nil), b...)
	p := post(current(), &req{kind: rWrite, sock: c.k, buf: buf, peer: to, hasTo: hasTo})
	var err error
	if p.err != nil {
		dst := udpAddr(c.k.remote)
		if hasTo {
			dst = udpAddr(to)
		}
		err = p.err.toErr("udp", udpAddr(c.k.local), dst)
	}
	raceEnable()
	c.sync()
	return p.n, err
}

func (c *UDPConn) WriteToUDP(b []byte, addr *net.UDPAddr) (int, error) {
	if !c.ok() {
		return 0, syscall.EINVAL
	}
	if addr == nil {
		return 0, &net.OpError{Op: "write", Net: "udp", Source: udpAddr(c.k.local), Err: &simError{"missing address"}}
	}
	raceDisable()
	ip := append(net.IP(nil), addr.IP...)
	port := addr.Port
	raceEnable()
	to, ok := fromIP(ip, port)
	if !ok {
		return 0, &net.OpError{Op: "write", Net: "udp", Source: udpAddr(c.k.local), Err: &net.AddrError{Err: "non-IPv4 address", Addr: "?"}}
	}
	return c.write(b, to, true)
}

func (c *UDPConn) WriteToUDPAddrPort(b []byte, addr netip.AddrPort) (int, error) {
	return c.write(b, addr, true)
}

func (c *UDPConn) WriteTo(b []byte, addr net.Addr) (int, error) {
	a, ok := addr.(*net.UDPAddr)
	if !ok {
		return 0, &net.OpError{Op: "write", Net: "udp", Err: syscall.EINVAL}
	}
	return c.WriteToUDP(b, a)
}

func (c *UDPConn) Write(b []byte) (int, error) {
	return c.write(b, netip.AddrPort{}, false)
}

func (c *UDPConn) Close() error {
	if !c.ok() {
		return syscall.EINVAL
	}
	c.sync()
	raceDisable()
	p := post(current(), &req{kind: rClose, sock: c.k})
	err := p.err.toErr("udp", udpAddr(c.k.local), udpAddr(c.k.remote))
	raceEnable()
	c.sync()
	return err
}

func (c *UDPConn) setDeadline(t time.Time, which int) error {
	if !c.ok() {
		return syscall.EINVAL
	}
	c.sync()
	raceDisable()
	s := current()
	if s == nil {
		runtime.Goexit()
	}
	p := post(s, &req{kind: rSetDeadline, sock: c.k, dl: s.toSim(t), which: which})
	err := p.err.toErr("udp", nil, udpAddr(c.k.local))
	raceEnable()
	c.sync()
	return err
}

func (c *UDPConn) SetDeadline(t time.Time) error      { return c.setDeadline(t, 3) }
func (c *UDPConn) SetReadDeadline(t time.Time) error  { return c.setDeadline(t, 1) }
func (c *UDPConn) SetWriteDeadline(t time.Time) error { return c.setDeadline(t, 2) }
func (c *UDPConn) SetReadBuffer(n int) error {
	if !c.ok() {
		return syscall.EINVAL
	}
	c.sync()
	raceDisable()
	p := post(current(), &req{kind: rSetBuf, sock: c.k, n: n})
	err := p.err.toErr("udp", nil, udpAddr(c.k.local))
	raceEnable()
	c.sync()
	return err
}
func (c *UDPConn) SetWriteBuffer(n int) error { return nil }

// File stands in for (*net.UDPConn).File: the caller gets a real descriptor (one end of a socket pair, so that
// getsockopt and friends work on it) and the simulated kernel keeps the socket alive for as long as that descriptor
// is open, as the real kernel does with a dup(2)ed socket.
func (c *UDPConn) File() (*os.File, error) {
	if !c.ok() {
		return nil, syscall.EINVAL
	}
	return dupFile(c.k, "udp")
}

func dupFile(k *Socket, netw string) (*os.File, error) {
	fds, err := syscall.Socketpair(syscall.AF_UNIX, syscall.SOCK_STREAM|syscall.SOCK_CLOEXEC, 0)
	if err != nil {
		return nil, &net.OpError{Op: "file", Net: netw, Err: os.NewSyscallError("socketpair", err)}
	}
	raceDisable()
	post(current(), &req{kind: rDup, sock: k, n: fds[1]})
	raceEnable()
	return os.NewFile(uintptr(fds[0]), netw+":simulated"), nil
}

// SyscallConn stands in for (*net.UDPConn).SyscallConn: Control runs against a throw-away kernel socket.
func (c *UDPConn) SyscallConn() (syscall.RawConn, error) {
	if !c.ok() {
		return nil, syscall.EINVAL
	}
	fd, err := syscall.Socket(syscall.AF_INET, syscall.SOCK_DGRAM|syscall.SOCK_CLOEXEC, 0)
	if err != nil {
		return nil, os.NewSyscallError("socket", err)
	}
	rc := &rawConn{fd: fd}
	runtime.SetFinalizer(rc, func(r *rawConn) { syscall.Close(r.fd) })
	return rc, nil
}

func (c *UDPConn) LocalAddr() net.Addr {
	if !c.ok() {
		return nil
	}
	return udpAddr(c.k.local)
}

func (c *UDPConn) RemoteAddr() net.Addr {
	if !c.ok() || !c.k.Connected {
		return nil
	}
	return udpAddr(c.k.remote)
}

// ---- TCP ------------------------------------------------------------------------------------

// TCPConn stands in for *net.TCPConn.
type TCPConn struct {
	k *Socket
}

func (c *TCPConn) Sock() *Socket { return c.k }
func (c *TCPConn) ok() bool      { return c != nil && c.k != nil }
func (c *TCPConn) sync() {
	if RaceBuild {
		raceSync(unsafe.Pointer(&c.k.sync))
	}
}

func (c *TCPConn) Read(b []byte) (int, error) {
	if !c.ok() {
		return 0, syscall.EINVAL
	}
	if len(b) == 0 {
		return 0, nil
	}
	c.sync()
	raceDisable()
	p := post(current(), &req{kind: rRead, sock: c.k, n: len(b)})
	var err error
	if p.err != nil {
		err = p.err.toErr("tcp", tcpAddr(c.k.local), tcpAddr(c.k.remote))
	} else {
		copy(b, p.data)
		c.k.filled = append(c.k.filled, b[:p.n:p.n])
	}
	raceEnable()
	if p.err == nil {
		raceWriteRange(b, p.n)
	}
	c.sync()
	return p.n, err
}

func (c *TCPConn) Write(b []byte) (int, error) {
	if !c.ok() {
		return 0, syscall.EINVAL
	}
	c.sync()
	raceReadRange(b)
	raceDisable()
	buf := append([]byte(nil), b...)
	p := post(current(), &req{kind: rWrite, sock: c.k, buf: buf})
	err := p.err.toErr("tcp", tcpAddr(c.k.local), tcpAddr(c.k.remote))
	raceEnable()
	c.sync()
	return p.n, err
}

func (c *TCPConn) Close() error {
	if !c.ok() {
		return syscall.EINVAL
	}
	c.sync()
	raceDisable()
	p := post(current(), &req{kind: rClose, sock: c.k})
	err := p.err.toErr("tcp", tcpAddr(c.k.local), tcpAddr(c.k.remote))
	raceEnable()
	c.sync()
	return err
}

func (c *TCPConn) setDeadline(t time.Time, which int) error {
	if !c.ok() {
		return syscall.EINVAL
	}
	c.sync()
	raceDisable()
	s := current()
	if s == nil {
		runtime.Goexit()
	}
	p := post(s, &req{kind: rSetDeadline, sock: c.k, dl: s.toSim(t), which: which})
	err := p.err.toErr("tcp", nil, tcpAddr(c.k.local))
	raceEnable()
	c.sync()
	return err
}

func (c *TCPConn) SetDeadline(t time.Time) error      { return c.setDeadline(t, 3) }
func (c *TCPConn) SetReadDeadline(t time.Time) error  { return c.setDeadline(t, 1) }
func (c *TCPConn) SetWriteDeadline(t time.Time) error { return c.setDeadline(t, 2) }
func (c *TCPConn) SetNoDelay(bool) error              { return nil }
func (c *TCPConn) SetKeepAlive(bool) error            { return nil }
func (c *TCPConn) SetLinger(int) error                { return nil }
func (c *TCPConn) CloseWrite() error                  { return nil }
func (c *TCPConn) CloseRead() error                   { return nil }

func (c *TCPConn) File() (*os.File, error) {
	if !c.ok() {
		return nil, syscall.EINVAL
	}
	return dupFile(c.k, "tcp")
}

func (c *TCPConn) LocalAddr() net.Addr {
	if !c.ok() {
		return nil
	}
	return tcpAddr(c.k.local)
}

func (c *TCPConn) RemoteAddr() net.Addr {
	if !c.ok() {
		return nil
	}
	return tcpAddr(c.k.remote)
}

// ---- Dialer ---------------------------------------------------------------------------------

// Dialer stands in for net.Dialer (same field names).
type Dialer struct {
	Timeout         time.Duration
	Deadline        time.Time
	LocalAddr       net.Addr
	DualStack       bool
	FallbackDelay   time.Duration
	KeepAlive       time.Duration
	KeepAliveConfig net.KeepAliveConfig
	Resolver        *net.Resolver
	Cancel          <-chan struct{}
	Control         func(network, address string, c syscall.RawConn) error
	ControlContext  func(ctx context.Context, network, address string, c syscall.RawConn) error
}

func Dial(network, address string) (net.Conn, error) {
	var d Dialer
	return d.Dial(network, address)
}

func DialTimeout(network, address string, timeout time.Duration) (net.Conn, error) {
	d := Dialer{Timeout: timeout}
	return d.Dial(network, address)
}

func DialTCP(network string, laddr, raddr *net.TCPAddr) (*TCPConn, error) {
	if raddr == nil {
		return nil, &net.OpError{Op: "dial", Net: network, Err: &simError{"missing address"}}
	}
	d := Dialer{}
	if laddr != nil {
		d.LocalAddr = laddr
	}
	c, err := d.Dial(network, raddr.String())
	if err != nil {
		return nil, err
	}
	return c.(*TCPConn), nil
}

func (d *Dialer) Dial(network, address string) (net.Conn, error) {
	return d.DialContext(context.Background(), network, address)
}

func (d *Dialer) DialContext(ctx context.Context, network, address string) (net.Conn, error) {
	var proto string
	switch network {
	case "udp", "udp4":
		proto = "udp"
	case "tcp", "tcp4":
		proto = "tcp"
	case "udp6", "tcp6":
		return nil, &net.OpError{Op: "dial", Net: network, Err: syscall.EAFNOSUPPORT}
	default:
		return nil, &net.OpError{Op: "dial", Net: network, Err: net.UnknownNetworkError(network)}
	}

	peer, err := netip.ParseAddrPort(address)
	if err != nil {
		return nil, &net.OpError{Op: "dial", Net: network, Err: &net.AddrError{Err: err.Error(), Addr: address}}
	}
	peer = netip.AddrPortFrom(peer.Addr().Unmap(), peer.Port())
	if !peer.Addr().Is4() {
		return nil, &net.OpError{Op: "dial", Net: network, Err: syscall.EAFNOSUPPORT}
	}

	local := netip.AddrPortFrom(netip.IPv4Unspecified(), 0)
	raceDisable()
	switch a := d.LocalAddr.(type) {
	case nil:
	case *net.UDPAddr:
		if proto != "udp" {
			raceEnable()
			return nil, &net.OpError{Op: "dial", Net: network, Err: &net.AddrError{Err: "mismatched local address type", Addr: a.String()}}
		}
		if a != nil {
			l, ok := fromIP(append(net.IP(nil), a.IP...), a.Port)
			if !ok {
				raceEnable()
				return nil, &net.OpError{Op: "dial", Net: network, Err: &net.AddrError{Err: "invalid address", Addr: "?"}}
			}
			local = l
		}
	case *net.TCPAddr:
		if proto != "tcp" {
			raceEnable()
			return nil, &net.OpError{Op: "dial", Net: network, Err: &net.AddrError{Err: "mismatched local address type", Addr: a.String()}}
		}
		if a != nil {
			l, ok := fromIP(append(net.IP(nil), a.IP...), a.Port)
			if !ok {
				raceEnable()
				return nil, &net.OpError{Op: "dial", Net: network, Err: &net.AddrError{Err: "invalid address", Addr: "?"}}
			}
			local = l
		}
	default:
		raceEnable()
		return nil, &net.OpError{Op: "dial", Net: network, Err: &net.AddrError{Err: "mismatched local address type", Addr: d.LocalAddr.String()}}
	}
	raceEnable()

	// socket options: run the library's Control callback for real against a throw-away socket
	reuse := false
	if d.Control != nil || d.ControlContext != nil {
		typ := syscall.SOCK_DGRAM
		if proto == "tcp" {
			typ = syscall.SOCK_STREAM
		}
		fd, serr := syscall.Socket(syscall.AF_INET, typ, 0)
		if serr != nil {
			return nil, &net.OpError{Op: "dial", Net: network, Err: os.NewSyscallError("socket", serr)}
		}
		rc := &rawConn{fd: fd}
		var cerr error
		if d.ControlContext != nil {
			cerr = d.ControlContext(ctx, proto+"4", address, rc)
		} else {
			cerr = d.Control(proto+"4", address, rc)
		}
		if cerr == nil {
			if v, gerr := syscall.GetsockoptInt(fd, syscall.SOL_SOCKET, syscall.SO_REUSEADDR); gerr == nil && v != 0 {
				reuse = true
			}
		}
		syscall.Close(fd)
		if cerr != nil {
			return nil, &net.OpError{Op: "dial", Net: network, Source: d.LocalAddr, Err: cerr}
		}
	}

	raceDisable()
	s := current()
	if s == nil {
		runtime.Goexit()
	}
	dl := s.toSim(d.Deadline)
	if d.Timeout > 0 {
		// relative to the bubble clock now
		t := time.Since(s.epoch) + d.Timeout
		if dl < 0 || t < dl {
			dl = t
		}
	}
	if cd, ok := ctx.Deadline(); ok {
		if t := s.toSim(cd); dl < 0 || t < dl {
			dl = t
		}
	}
	p := post(s, &req{kind: rDial, proto: proto, local: local, peer: peer, dl: dl, reuse: reuse})
	raceEnable()
	if p.err != nil {
		if proto == "udp" {
			return nil, p.err.toErr(network, udpAddr(local), udpAddr(peer))
		}
		return nil, p.err.toErr(network, tcpAddr(local), tcpAddr(peer))
	}
	if proto == "udp" {
		return &UDPConn{k: p.sock}, nil
	}
	return &TCPConn{k: p.sock}, nil
}

type rawConn struct{ fd int }

func (r *rawConn) Control(f func(fd uintptr)) error { f(uintptr(r.fd)); return nil }
func (r *rawConn) Read(f func(fd uintptr) (done bool)) error {
	return &simError{"rawConn.Read not supported in simulation"}
}
func (r *rawConn) Write(f func(fd uintptr) (done bool)) error {
	return &simError{"rawConn.Write not supported in simulation"}
}

// ---- time and locks -------------------------------------------------------------------------

// Yield is a scheduling point inserted by cmd/rewrite at the start of every block of the library's
// channel-using functions.
func Yield() {
	raceDisable()
	post(current(), &req{kind: rYield})
	raceEnable()
}

// Sleep stands in for time.Sleep.
func Sleep(d time.Duration) {
	raceDisable()
	post(current(), &req{kind: rSleep, d: d})
	raceEnable()
}

// Mutex stands in for sync.Mutex. Its state lives in the scheduler; the zero value is unlocked.
type Mutex struct {
	word uint64 // race detector sync object
}

func (m *Mutex) Lock() {
	raceDisable()
	post(current(), &req{kind: rLock, mu: m})
	raceEnable()
	raceAcquire(unsafe.Pointer(&m.word))
}

func (m *Mutex) Unlock() {
	raceRelease(unsafe.Pointer(&m.word))
	raceDisable()
	p := post(current(), &req{kind: rUnlock, mu: m})
	raceEnable()
	if p.err != nil {
		panic("sync: unlock of unlocked mutex")
	}
}

func (m *Mutex) TryLock() bool {
	m.Lock() // conservative: the simulated mutex has no try path; nothing in the library uses it
	return true
}

// RWMutex stands in for sync.RWMutex.
type RWMutex struct {
	word uint64
}

func (m *RWMutex) Lock() {
	raceDisable()
	post(current(), &req{kind: rLock, mu: m})
	raceEnable()
	raceAcquire(unsafe.Pointer(&m.word))
}

func (m *RWMutex) Unlock() {
	raceRelease(unsafe.Pointer(&m.word))
	raceDisable()
	p := post(current(), &req{kind: rUnlock, mu: m})
	raceEnable()
	if p.err != nil {
		panic("sync: Unlock of unlocked RWMutex")
	}
}

func (m *RWMutex) RLock() {
	raceDisable()
	post(current(), &req{kind: rRLock, mu: m})
	raceEnable()
	raceAcquire(unsafe.Pointer(&m.word))
}

func (m *RWMutex) RUnlock() {
	raceRelease(unsafe.Pointer(&m.word))
	raceDisable()
	p := post(current(), &req{kind: rRUnlock, mu: m})
	raceEnable()
	if p.err != nil {
		panic("sync: RUnlock of unlocked RWMutex")
	}
}

// ---- harness hooks --------------------------------------------------------------------------

// Point is a harness scheduling point. step >= 0 also records the task's current step.
func (s *Sim) Point(tag string, step int, data []byte) {
	raceDisable()
	r := &req{kind: rPoint, tag: tag, step: step, buf: data}
	if step < 0 {
		r.step = -1
	}
	post(s, r)
	raceEnable()
}

// Quiesce blocks until nothing else is enabled at the current instant and returns the number
// of open sockets at that moment.
func (s *Sim) Quiesce(tag string) int {
	raceDisable()
	p := post(s, &req{kind: rQuiesce, tag: tag})
	raceEnable()
	return p.val
}

// ScribbleStep overwrites every caller buffer the kernel filled for sockets of (calling task, step);
// step < 0: all sockets of the task. Returns the number of bytes overwritten.
func (s *Sim) ScribbleStep(step int, b byte) int {
	raceDisable()
	p := post(s, &req{kind: rScribble, step: step, n: int(b)})
	raceEnable()
	return p.val
}

// SleepSim lets a harness task wait in simulated time.
func (s *Sim) SleepSim(d time.Duration) {
	raceDisable()
	post(s, &req{kind: rSleep, d: d})
	raceEnable()
}

// Scribble overwrites every caller buffer the kernel filled for this socket (C17/C10 history step).
func (k *Socket) Scribble(b byte) int {
	n := 0
	for _, f := range k.filled {
		for i := range f {
			f[i] = b
		}
		n += len(f)
	}
	return n
}

// ---- os/signal ------------------------------------------------------------------------------

var (
	sigMu      sync.Mutex
	sigStopped = map[chan<- os.Signal]bool{}
)

func resetSignals() {
	sigMu.Lock()
	sigStopped = map[chan<- os.Signal]bool{}
	sigMu.Unlock()
}

// SignalNotify stands in for signal.Notify: the channel is (again) one the OS delivers to.
func SignalNotify(c chan<- os.Signal, sig ...os.Signal) {
	sigMu.Lock()
	delete(sigStopped, c)
	sigMu.Unlock()
}

// SignalStop stands in for signal.Stop: from now on the OS delivers nothing to the channel.
func SignalStop(c chan<- os.Signal) {
	sigMu.Lock()
	sigStopped[c] = true
	sigMu.Unlock()
}

func SignalReset(sig ...os.Signal)  {}
func SignalIgnore(sig ...os.Signal) {}

// SignalDeliverable: would the OS still deliver a signal to this channel? (The harness, playing the OS, asks before
// it sends the application's stop signal.)
func SignalDeliverable(c chan<- os.Signal) bool {
	sigMu.Lock()
	defer sigMu.Unlock()
	return !sigStopped[c]
}
