package vnet

import (
	"net/netip"
	"strconv"
	"syscall"
	"time"
)

type reqKind int

const (
	rStart reqKind = iota
	rTaskEnd
	rNote
	rListenUDP
	rDial
	rDialWait
	rClose
	rSetDeadline
	rWrite
	rRead
	rSleep
	rLock
	rUnlock
	rRLock
	rRUnlock
	rPoint   // harness scheduling point (call begin/end, callbacks)
	rQuiesce // harness checkpoint: served only when nothing else is enabled at this instant
	rScribble
	rYield
	rSetBuf
	rDup
)

var kindNames = map[reqKind]string{
	rStart: "start", rTaskEnd: "task-end", rNote: "note", rListenUDP: "listen-udp", rDial: "dial", rDialWait: "dial-wait",
	rClose: "close", rSetDeadline: "set-deadline", rWrite: "write", rRead: "read", rSleep: "sleep", rLock: "lock",
	rUnlock: "unlock", rRLock: "rlock", rRUnlock: "runlock", rPoint: "point", rQuiesce: "quiesce", rScribble: "scribble", rYield: "yield", rSetBuf: "set-rcvbuf", rDup: "dup",
}

type req struct {
	kind  reqKind
	g     *G
	sock  *Socket
	mu    any // *Mutex | *RWMutex identity
	proto string
	local netip.AddrPort
	peer  netip.AddrPort
	hasTo bool // write: explicit destination
	buf   []byte
	n     int           // read: caller buffer length
	d     time.Duration // sleep duration / start time
	dl    time.Duration // deadline (sim time); -1 = none
	which int           // 1 read 2 write 3 both
	reuse bool
	tag   string
	step  int
	wake  chan resp
	until time.Duration // sleep: wake time
	armed bool
	since time.Duration // when the request was posted
}

type resp struct {
	trunc bool // udp read: the datagram was longer than the caller's buffer (MSG_TRUNC)
	n     int
	from  netip.AddrPort
	data  []byte
	err   *kerr
	sock  *Socket
	ended bool
	val   int
}

// kerr is a plain-data error description; the hook turns it into a net.OpError in the caller's goroutine.
type kerr struct {
	op    string
	errno syscall.Errno
	kind  string // "", timeout, closed, eof, other
	msg   string
}

func (r *req) sortKey() string {
	name := "?"
	if r.g != nil {
		name = r.g.Name
	}
	return name + "|" + pad(int64(r.kind), 2) + "|" + itoa(int64(r.sockID())) + "|" + r.tag
}

func (r *req) sockID() int {
	if r.sock != nil {
		return r.sock.ID
	}
	return 0
}

func (r *req) describe() string {
	name := "?"
	if r.g != nil {
		name = r.g.Name
	}
	return name + " " + kindNames[r.kind] + " sock=" + itoa(int64(r.sockID())) + " " + r.tag
}

// wakeTime: the instant at which a parked request becomes enabled by the passage of time alone.
func (r *req) wakeTime() (time.Duration, bool) {
	switch r.kind {
	case rStart:
		return r.d, true
	case rSleep:
		return r.until, true
	case rRead:
		if r.sock != nil && r.sock.rdl >= 0 {
			return r.sock.rdl, true
		}
	case rDialWait:
		if r.sock != nil && r.sock.cdl >= 0 {
			return r.sock.cdl, true
		}
	}
	return 0, false
}

// ---- sockets ------------------------------------------------------------------------------

type dgram struct {
	from netip.AddrPort
	data []byte
	at   time.Duration
	tag  string // who emitted it (world's identification; logged with the read)
}

// Socket is a simulated socket owned by the library (or by the harness acting as the library's caller).
type Socket struct {
	ID        int
	Proto     string // udp | tcp
	Connected bool
	Task      int
	Step      int
	Owner     string // goroutine that created it
	local     netip.AddrPort
	remote    netip.AddrPort
	reuse     bool
	closed    bool
	q         []dgram
	qbytes    int           // receive-buffer memory charged for the queued datagrams
	rcvbuf    int           // SO_RCVBUF as the kernel keeps it
	rdl, wdl  time.Duration // -1: none
	cdl       time.Duration // connect deadline
	pendErr   syscall.Errno // ICMP
	state     int           // tcp: 0 connecting 1 established 2 refused
	fin, rst  bool
	opened    time.Duration
	closedAt  time.Duration
	sync      uint64   // race detector sync word (mirrors internal/poll.fdMutex)
	filled    [][]byte // caller buffers the kernel wrote into (C17)
	World     any      // free slot for the world model
	WTask     int      // task and step of the goroutine that wrote to the socket last (tcp)
	WStep     int
	dups      []int // File(): our ends of the socket pairs whose other ends the library holds as duplicated descriptors
}

func (k *Socket) Local() netip.AddrPort  { return k.local }
func (k *Socket) Remote() netip.AddrPort { return k.remote }
func (k *Socket) Closed() bool           { return k.closed }
func (k *Socket) kindName() string {
	if k.Proto == "tcp" {
		return "tcp"
	}
	if k.Connected {
		return "udp-connected"
	}
	return "udp"
}

func (s *Sim) isLocal(a netip.Addr) bool {
	if a.IsUnspecified() || a.IsLoopback() {
		return true
	}
	for _, h := range s.cfg.HostIPs {
		if h == a {
			return true
		}
	}
	return false
}

func (s *Sim) primaryIP() netip.Addr {
	if len(s.cfg.HostIPs) > 0 {
		return s.cfg.HostIPs[0]
	}
	return netip.AddrFrom4([4]byte{127, 0, 0, 1})
}

func (s *Sim) isBroadcast(a netip.Addr) bool {
	if a == netip.AddrFrom4([4]byte{255, 255, 255, 255}) {
		return true
	}
	for _, b := range s.cfg.Bcast {
		if a == b {
			return true
		}
	}
	return false
}

func (s *Sim) fault(kind string) (syscall.Errno, bool) {
	n := s.faultCnt[kind]
	s.faultCnt[kind] = n + 1
	for _, f := range s.cfg.Faults {
		if f.Kind == kind && f.Nth == n {
			s.Stats["fault:"+kind+":"+f.Errno]++
			return errnoByName(f.Errno), true
		}
	}
	return 0, false
}

func errnoByName(n string) syscall.Errno {
	switch n {
	case "EADDRINUSE":
		return syscall.EADDRINUSE
	case "EMFILE":
		return syscall.EMFILE
	case "ENETUNREACH":
		return syscall.ENETUNREACH
	case "EPERM":
		return syscall.EPERM
	case "EPIPE":
		return syscall.EPIPE
	case "EINVAL":
		return syscall.EINVAL
	case "ENOBUFS":
		return syscall.ENOBUFS
	case "ECONNREFUSED":
		return syscall.ECONNREFUSED
	case "EADDRNOTAVAIL":
		return syscall.EADDRNOTAVAIL
	}
	return syscall.EIO
}

// bind resolves the local address of a new socket or fails like bind(2).
func (s *Sim) bind(proto string, want netip.AddrPort, reuse bool) (netip.AddrPort, syscall.Errno) {
	ip := want.Addr()
	if !ip.IsValid() {
		ip = netip.IPv4Unspecified()
	}
	ip = ip.Unmap()
	if !ip.Is4() {
		return netip.AddrPort{}, syscall.EAFNOSUPPORT
	}
	if !s.isLocal(ip) {
		return netip.AddrPort{}, syscall.EADDRNOTAVAIL
	}
	port := want.Port()
	auto := port == 0
	conflict := func(p uint16) bool {
		for _, f := range s.cfg.Foreign {
			if f.Proto == proto && f.Port == p {
				return true
			}
		}
		for _, k := range s.socks {
			if (k.closed && !s.dupHeld(k)) || k.Proto != proto || k.local.Port() != p {
				continue
			}
			overlap := k.local.Addr().IsUnspecified() || ip.IsUnspecified() || k.local.Addr() == ip
			if !overlap {
				continue
			}
			if k.reuse && reuse && !auto {
				continue
			}
			return true
		}
		return false
	}
	if port == 0 {
		for i := 0; i < 100000; i++ {
			// automatic port selection never hands out a port that is in use (Linux may, between two
			// SO_REUSEADDR sockets - a one-in-28000 coincidence no property speaks of) and stays below the
			// 60000-60999 block in which the scenarios place their fixed bind and listen ports
			p := uint16(32768 + s.aux.Intn(59999-32768+1))
			if !conflict(p) {
				port = p
				break
			}
		}
		if port == 0 {
			return netip.AddrPort{}, syscall.EADDRINUSE
		}
	} else if conflict(port) {
		return netip.AddrPort{}, syscall.EADDRINUSE
	}
	return netip.AddrPortFrom(ip, port), 0
}

func (s *Sim) newSocket(r *req, proto string, local, remote netip.AddrPort, connected bool) *Socket {
	k := &Socket{
		ID: len(s.socks) + 1, Proto: proto, Connected: connected, local: local, remote: remote,
		reuse: r.reuse, rdl: -1, wdl: -1, cdl: -1, opened: s.now, closedAt: -1, rcvbuf: DefaultRcvbuf,
	}
	if r.g != nil {
		k.Task = r.g.Task
		k.Step = s.curStep[r.g.Task]
		k.Owner = r.g.Name
	}
	s.socks = append(s.socks, k)
	return k
}

// Receive-buffer accounting as Linux does it: every queued datagram is charged its payload plus a fixed overhead
// against SO_RCVBUF (net.core.rmem_default = 212992); a datagram that does not fit is dropped silently.
// setsockopt(SO_RCVBUF, n) stores 2n, at least 2304 and at most 2*rmem_max.
const (
	DefaultRcvbuf = 212992
	dgramOverhead = 768
)

func charge(n int) int { return dgramOverhead + n }

func (s *Sim) opened(k *Socket) {
	if s.cfg.World != nil {
		s.cfg.World.SockOpened(s, k)
	}
}

// Sockets returns every socket created during the run.
func (s *Sim) Sockets() []*Socket { return s.socks }

// ready reports whether a parked request can complete now; alt is true when a second,
// different completion is also legal at this instant (a tie the scheduler decides).
func (s *Sim) ready(r *req) (ok bool, alt bool) {
	switch r.kind {
	case rStart:
		return s.now >= r.d, false
	case rSleep:
		return s.now >= r.until, false
	case rLock:
		m := s.mu(r.mu)
		return !m.locked && m.readers == 0, false
	case rRLock:
		m := s.mu(r.mu)
		return !m.locked, false
	case rRead:
		k := r.sock
		if k.closed {
			return true, false
		}
		expired := k.rdl >= 0 && s.now >= k.rdl
		data := len(k.q) > 0 || k.pendErr != 0 || k.fin || k.rst
		if expired && data && s.now == k.rdl && len(k.q) > 0 && k.q[0].at == s.now {
			return true, true // data and deadline at the very same instant
		}
		return expired || data, false
	case rDialWait:
		k := r.sock
		if k.closed || k.state != 0 {
			return true, false
		}
		return k.cdl >= 0 && s.now >= k.cdl, false
	}
	return true, false
}

func (s *Sim) complete(r *req, alt int) {
	switch r.kind {
	case rStart:
		s.logG(r.g, Ev{Kind: "task-start"})
		s.reply(r, resp{})

	case rPoint:
		if r.step >= 0 {
			s.curStep[r.g.Task] = r.step
		}
		s.logG(r.g, Ev{Kind: "point", Note: r.tag, Data: r.buf})
		s.reply(r, resp{})

	case rYield:
		s.Stats["yield"]++
		s.reply(r, resp{})

	case rQuiesce:
		s.logG(r.g, Ev{Kind: "quiesce", Note: r.tag, N: s.openSockets()})
		s.reply(r, resp{val: s.openSockets()})

	case rScribble:
		n := 0
		for _, k := range s.socks {
			if k.Task == r.g.Task && (r.step < 0 || k.Step == r.step) {
				n += k.Scribble(byte(r.n))
			}
		}
		s.logG(r.g, Ev{Kind: "scribble", N: n})
		s.reply(r, resp{val: n})

	case rSleep:
		if !r.armed {
			r.armed = true
			r.until = s.now + r.d
			s.logG(r.g, Ev{Kind: "sleep", N: int(r.d)})
			if r.d > 0 {
				return // stays parked until r.until
			}
		}
		s.logG(r.g, Ev{Kind: "wake"})
		s.reply(r, resp{})

	case rLock, rRLock:
		m := s.mu(r.mu)
		if r.kind == rLock {
			m.locked = true
			m.owner = r.g
		} else {
			m.readers++
		}
		s.logG(r.g, Ev{Kind: kindNames[r.kind], N: m.id, Note: itoa(int64(s.now - r.since))})
		s.reply(r, resp{})

	case rUnlock, rRUnlock:
		m := s.mu(r.mu)
		bad := false
		if r.kind == rUnlock {
			bad = !m.locked
			m.locked = false
			m.owner = nil
		} else {
			bad = m.readers == 0
			if m.readers > 0 {
				m.readers--
			}
		}
		s.logG(r.g, Ev{Kind: kindNames[r.kind], N: m.id})
		if bad {
			s.reply(r, resp{err: &kerr{kind: "other", msg: "unlock of unlocked mutex"}})
		} else {
			s.reply(r, resp{})
		}

	case rListenUDP:
		s.doListenUDP(r)
	case rDial:
		s.doDial(r)
	case rDialWait:
		s.doDialWait(r)
	case rClose:
		s.doClose(r)
	case rSetDeadline:
		s.doSetDeadline(r)
	case rWrite:
		s.doWrite(r)
	case rRead:
		s.doRead(r, alt)
	case rDup:
		r.sock.dups = append(r.sock.dups, r.n)
		s.logG(r.g, Ev{Kind: "dup", Sock: r.sock.ID})
		s.reply(r, resp{})
	case rSetBuf:
		k := r.sock
		if k.closed {
			s.reply(r, resp{err: &kerr{op: "set", kind: "closed"}})
			break
		}
		v := 2 * r.n
		if v < 2304 {
			v = 2304
		}
		if v > 2*DefaultRcvbuf {
			v = 2 * DefaultRcvbuf
		}
		k.rcvbuf = v
		s.logG(r.g, Ev{Kind: "set-rcvbuf", Sock: k.ID, N: v})
		s.reply(r, resp{})
	default:
		s.reply(r, resp{})
	}
}

func (s *Sim) openSockets() int {
	n := 0
	for _, k := range s.socks {
		if !k.closed {
			n++
		}
	}
	return n
}

func (s *Sim) doListenUDP(r *req) {
	if e, ok := s.fault("bind"); ok {
		s.logG(r.g, Ev{Kind: "bind-fail", Src: r.local.String(), Err: e.Error(), Note: "injected"})
		s.reply(r, resp{err: &kerr{op: "listen", errno: e}})
		return
	}
	local, e := s.bind("udp", r.local, r.reuse)
	if e != 0 {
		s.logG(r.g, Ev{Kind: "bind-fail", Src: r.local.String(), Err: e.Error()})
		s.reply(r, resp{err: &kerr{op: "listen", errno: e}})
		return
	}
	k := s.newSocket(r, "udp", local, netip.AddrPort{}, false)
	s.logG(r.g, Ev{Kind: "sock-open", Sock: k.ID, Src: local.String(), Note: "udp"})
	s.opened(k)
	s.reply(r, resp{sock: k})
}

func (s *Sim) doDial(r *req) {
	// deadline already in the past: the dialer gives up before touching the network
	if r.dl >= 0 && s.now >= r.dl {
		s.logG(r.g, Ev{Kind: "dial-fail", Dst: r.peer.String(), Err: "i/o timeout", Note: "deadline passed before dial"})
		s.reply(r, resp{err: &kerr{op: "dial", kind: "timeout"}})
		return
	}
	if e, ok := s.fault("dial"); ok {
		s.logG(r.g, Ev{Kind: "dial-fail", Dst: r.peer.String(), Err: e.Error(), Note: "injected"})
		s.reply(r, resp{err: &kerr{op: "dial", errno: e}})
		return
	}
	local, e := s.bind(r.proto, r.local, r.reuse)
	if e != 0 {
		s.logG(r.g, Ev{Kind: "bind-fail", Src: r.local.String(), Err: e.Error(), Note: r.proto})
		s.reply(r, resp{err: &kerr{op: "dial", errno: e}})
		return
	}
	if local.Addr().IsUnspecified() {
		// connect(2) fixes the source address
		local = netip.AddrPortFrom(s.primaryIP(), local.Port())
	}
	k := s.newSocket(r, r.proto, local, r.peer, true)
	s.logG(r.g, Ev{Kind: "sock-open", Sock: k.ID, Src: local.String(), Dst: r.peer.String(), Note: k.kindName()})
	s.opened(k)
	if r.proto == "udp" {
		k.state = 1
		s.reply(r, resp{sock: k})
		return
	}
	// tcp: SYN leaves now, completion is the world's business
	k.cdl = r.dl
	r.kind = rDialWait
	r.sock = k
	s.logG(r.g, Ev{Kind: "tcp-syn", Sock: k.ID, Src: local.String(), Dst: r.peer.String()})
	s.cfg.World.TCPConnect(s, k, local, r.peer)
}

func (s *Sim) doDialWait(r *req) {
	k := r.sock
	switch {
	case k.state == 1:
		k.cdl = -1
		s.logG(r.g, Ev{Kind: "tcp-established", Sock: k.ID})
		s.reply(r, resp{sock: k})
	case k.state == 2:
		s.closeSocket(k)
		s.logG(r.g, Ev{Kind: "dial-fail", Sock: k.ID, Dst: k.remote.String(), Err: "connection refused"})
		s.reply(r, resp{err: &kerr{op: "dial", errno: syscall.ECONNREFUSED}})
	default:
		s.closeSocket(k)
		s.logG(r.g, Ev{Kind: "dial-fail", Sock: k.ID, Dst: k.remote.String(), Err: "i/o timeout"})
		s.reply(r, resp{err: &kerr{op: "dial", kind: "timeout"}})
	}
}

func (s *Sim) closeSocket(k *Socket) {
	if k.closed {
		return
	}
	k.closed = true
	k.closedAt = s.now
}

// dupHeld: a descriptor the library duplicated from the socket (File) is still open - the kernel keeps the socket,
// and its port, until the last descriptor is closed. The library's end is a real descriptor of a socket pair: once
// it is closed our end reads end-of-file.
func (s *Sim) dupHeld(k *Socket) bool {
	held := false
	for i, fd := range k.dups {
		if fd < 0 {
			continue
		}
		var b [1]byte
		n, _, err := syscall.Recvfrom(fd, b[:], syscall.MSG_DONTWAIT|syscall.MSG_PEEK)
		if n == 0 && err == nil {
			syscall.Close(fd)
			k.dups[i] = -1
			continue
		}
		held = true
	}
	return held
}

func (s *Sim) releaseDups() {
	for _, k := range s.socks {
		for i, fd := range k.dups {
			if fd >= 0 {
				syscall.Close(fd)
				k.dups[i] = -1
			}
		}
	}
}

func (s *Sim) doClose(r *req) {
	k := r.sock
	if k.closed {
		s.logG(r.g, Ev{Kind: "sock-close", Sock: k.ID, Err: "already closed"})
		s.reply(r, resp{err: &kerr{op: "close", kind: "closed"}})
		return
	}
	s.closeSocket(k)
	s.logG(r.g, Ev{Kind: "sock-close", Sock: k.ID})
	if k.Proto == "tcp" && k.state == 1 {
		s.cfg.World.TCPClose(s, k)
	}
	s.reply(r, resp{})
}

func (s *Sim) doSetDeadline(r *req) {
	k := r.sock
	if k.closed {
		s.reply(r, resp{err: &kerr{op: "set", kind: "closed"}})
		return
	}
	if e, ok := s.fault("setdeadline"); ok {
		s.logG(r.g, Ev{Kind: "set-deadline-fail", Sock: k.ID, Err: e.Error(), Note: "injected"})
		s.reply(r, resp{err: &kerr{op: "set", errno: e}})
		return
	}
	if r.which&1 != 0 {
		k.rdl = r.dl
	}
	if r.which&2 != 0 {
		k.wdl = r.dl
	}
	s.logG(r.g, Ev{Kind: "set-deadline", Sock: k.ID, N: r.which, Note: itoa(int64(r.dl))})
	s.reply(r, resp{})
}

func (s *Sim) doWrite(r *req) {
	k := r.sock
	op := "write"
	switch {
	case k.closed:
		s.logG(r.g, Ev{Kind: "write-fail", Sock: k.ID, Err: "closed"})
		s.reply(r, resp{err: &kerr{op: op, kind: "closed"}})
		return
	case k.wdl >= 0 && s.now >= k.wdl:
		s.logG(r.g, Ev{Kind: "write-fail", Sock: k.ID, Err: "i/o timeout"})
		s.reply(r, resp{err: &kerr{op: op, kind: "timeout"}})
		return
	}
	if k.Proto == "udp" {
		dst := k.remote
		if r.hasTo {
			if k.Connected {
				s.logG(r.g, Ev{Kind: "write-fail", Sock: k.ID, Err: "EISCONN"})
				s.reply(r, resp{err: &kerr{op: op, kind: "other", msg: "use of WriteTo with pre-connected connection"}})
				return
			}
			dst = r.peer
		} else if !k.Connected {
			s.logG(r.g, Ev{Kind: "write-fail", Sock: k.ID, Err: "EDESTADDRREQ"})
			s.reply(r, resp{err: &kerr{op: op, errno: syscall.EDESTADDRREQ}})
			return
		}
		if k.pendErr != 0 {
			e := k.pendErr
			k.pendErr = 0
			s.logG(r.g, Ev{Kind: "write-fail", Sock: k.ID, Err: e.Error()})
			s.reply(r, resp{err: &kerr{op: op, errno: e}})
			return
		}
		if e, ok := s.fault("udpwrite"); ok {
			s.logG(r.g, Ev{Kind: "write-fail", Sock: k.ID, Err: e.Error(), Note: "injected"})
			s.reply(r, resp{err: &kerr{op: op, errno: e}})
			return
		}
		if len(r.buf) > 65507 {
			s.reply(r, resp{err: &kerr{op: op, errno: syscall.EMSGSIZE}})
			return
		}
		if !dst.IsValid() || !dst.Addr().Unmap().Is4() {
			s.logG(r.g, Ev{Kind: "write-fail", Sock: k.ID, Dst: dst.String(), Err: "EINVAL"})
			s.reply(r, resp{err: &kerr{op: op, errno: syscall.EINVAL}})
			return
		}
		dst = netip.AddrPortFrom(dst.Addr().Unmap(), dst.Port())
		src := k.local
		if src.Addr().IsUnspecified() {
			src = netip.AddrPortFrom(s.primaryIP(), src.Port())
		}
		s.logG(r.g, Ev{Kind: "udp-send", Sock: k.ID, Src: src.String(), Dst: dst.String(), N: len(r.buf), Data: r.buf})
		s.reply(r, resp{n: len(r.buf)})
		s.cfg.World.UDPSend(s, k, src, dst, r.buf)
		return
	}
	// tcp
	if k.rst {
		s.logG(r.g, Ev{Kind: "write-fail", Sock: k.ID, Err: "EPIPE"})
		s.reply(r, resp{err: &kerr{op: op, errno: syscall.EPIPE}})
		return
	}
	if e, ok := s.fault("tcpwrite"); ok {
		s.logG(r.g, Ev{Kind: "write-fail", Sock: k.ID, Err: e.Error(), Note: "injected"})
		s.reply(r, resp{err: &kerr{op: op, errno: e}})
		return
	}
	s.logG(r.g, Ev{Kind: "tcp-send", Sock: k.ID, Src: k.local.String(), Dst: k.remote.String(), N: len(r.buf), Data: r.buf})
	s.reply(r, resp{n: len(r.buf)})
	// who is writing: a connection kept open across calls carries the requests of later steps too
	k.WTask, k.WStep = k.Task, k.Step
	if r.g != nil {
		k.WTask, k.WStep = r.g.Task, s.curStep[r.g.Task]
	}
	s.cfg.World.TCPSend(s, k, r.buf)
}

func (s *Sim) doRead(r *req, alt int) {
	k := r.sock
	op := "read"
	if k.closed {
		s.logG(r.g, Ev{Kind: "read-fail", Sock: k.ID, Err: "closed"})
		s.reply(r, resp{err: &kerr{op: op, kind: "closed"}})
		return
	}
	expired := k.rdl >= 0 && s.now >= k.rdl
	tie := expired && s.now == k.rdl && len(k.q) > 0 && k.q[0].at == s.now
	if expired && !(tie && alt == 0) {
		s.Stats["read-timeout"]++
		s.logG(r.g, Ev{Kind: "read-fail", Sock: k.ID, Err: "i/o timeout"})
		s.reply(r, resp{err: &kerr{op: op, kind: "timeout"}})
		return
	}
	if k.Proto == "udp" && !k.Connected && len(k.q) > 0 {
		// a transient receive error on an unconnected socket; the datagram stays queued
		if e, ok := s.fault("udpread"); ok {
			s.logG(r.g, Ev{Kind: "read-fail", Sock: k.ID, Err: e.Error(), Note: "injected"})
			s.reply(r, resp{err: &kerr{op: op, errno: e}})
			return
		}
	}
	if k.pendErr != 0 && len(k.q) == 0 {
		e := k.pendErr
		k.pendErr = 0
		s.logG(r.g, Ev{Kind: "read-fail", Sock: k.ID, Err: e.Error()})
		s.reply(r, resp{err: &kerr{op: op, errno: e}})
		return
	}
	if len(k.q) > 0 && k.Proto == "tcp" {
		// a byte stream: a read takes whatever has arrived so far, up to the size of the caller's buffer; what does
		// not fit stays queued
		d := k.q[0]
		var buf []byte
		for len(k.q) > 0 && len(buf) < r.n {
			seg := k.q[0]
			room := r.n - len(buf)
			if len(seg.data) <= room {
				buf = append(buf, seg.data...)
				k.q = k.q[1:]
			} else {
				buf = append(buf, seg.data[:room]...)
				k.q[0].data = seg.data[room:]
			}
		}
		if expired {
			s.Stats["tie:data-at-deadline"]++
		}
		if len(buf) != len(d.data) {
			s.Stats["tcp-read-not-one-segment"]++
		}
		s.logG(r.g, Ev{Kind: "read", Sock: k.ID, Src: d.from.String(), Dst: d.tag, N: len(buf), Data: buf, Note: itoa(int64(len(buf)))})
		s.reply(r, resp{n: len(buf), from: d.from, data: buf})
		return
	}
	if len(k.q) > 0 {
		d := k.q[0]
		k.q = k.q[1:]
		if k.Proto == "udp" {
			k.qbytes -= charge(len(d.data))
		}
		n := len(d.data)
		trunc := false
		if n > r.n {
			n = r.n // the rest of the datagram is discarded, as recvfrom(2) does
			trunc = true
			s.Stats["read-truncated"]++
		}
		if expired {
			s.Stats["tie:data-at-deadline"]++
		}
		s.logG(r.g, Ev{Kind: "read", Sock: k.ID, Src: d.from.String(), Dst: d.tag, N: n, Data: d.data[:n], Note: itoa(int64(len(d.data)))})
		s.reply(r, resp{n: n, from: d.from, data: d.data[:n], trunc: trunc})
		return
	}
	if k.rst {
		s.logG(r.g, Ev{Kind: "read-fail", Sock: k.ID, Err: "ECONNRESET"})
		s.reply(r, resp{err: &kerr{op: op, errno: syscall.ECONNRESET}})
		return
	}
	if k.fin {
		s.logG(r.g, Ev{Kind: "read-fail", Sock: k.ID, Err: "EOF"})
		s.reply(r, resp{err: &kerr{op: op, kind: "eof"}})
		return
	}
	// not ready after all (cannot happen: ready() said so)
	s.reply(r, resp{err: &kerr{op: op, kind: "other", msg: "spurious wakeup"}})
}

// ---- world-facing API (scheduler goroutine only) -------------------------------------------

// DeliverUDP hands a datagram to whichever library socket is bound at dst right now.
// It reports the socket that took it (nil: nobody listening; the datagram is lost).
func (s *Sim) DeliverUDP(from, dst netip.AddrPort, payload []byte, note string) *Socket {
	best := -1
	var cands []*Socket
	for _, k := range s.socks {
		if k.closed || k.Proto != "udp" || k.local.Port() != dst.Port() {
			continue
		}
		score := 0
		la := k.local.Addr()
		switch {
		case la.IsUnspecified():
		case la == dst.Addr():
			score++
		case s.isBroadcast(dst.Addr()):
		default:
			continue
		}
		if k.Connected {
			if k.remote != from {
				continue
			}
			score += 2
		}
		if score > best {
			best = score
			cands = cands[:0]
		}
		if score == best {
			cands = append(cands, k)
		}
	}
	data := append([]byte(nil), payload...)
	if len(cands) == 0 {
		s.Stats["udp-lost:no-socket"]++
		s.Log(Ev{Kind: "udp-lost", Task: -1, Src: from.String(), Dst: dst.String(), N: len(data), Data: data, Note: note})
		return nil
	}
	k := cands[0]
	if len(cands) > 1 {
		k = cands[s.aux.Intn(len(cands))]
	}
	if c := charge(len(data)); k.qbytes+c > k.rcvbuf {
		// receive buffer full: the kernel drops the datagram. Whether it would have fitted in a buffer of the
		// default size tells whose doing that is (the environment's, or the library's for shrinking the buffer)
		why := "rcvbuf"
		if k.qbytes+c <= DefaultRcvbuf {
			why = "rcvbuf-shrunk"
		}
		s.Stats["udp-lost:"+why]++
		s.Log(Ev{Kind: "udp-lost", Task: k.Task, Step: k.Step, Sock: k.ID, Src: from.String(), Dst: dst.String(), N: len(data), Data: data, Note: note, Err: why})
		return nil
	}
	k.qbytes += charge(len(data))
	k.q = append(k.q, dgram{from: from, data: data, at: s.now, tag: note})
	s.Log(Ev{Kind: "udp-arrive", Task: k.Task, Step: k.Step, Sock: k.ID, Src: from.String(), Dst: dst.String(), N: len(data), Data: data, Note: note})
	return k
}

// ICMPRefuse reports a port-unreachable to a connected UDP socket.
func (s *Sim) ICMPRefuse(k *Socket) {
	if k.closed || !k.Connected || k.Proto != "udp" {
		return
	}
	k.pendErr = syscall.ECONNREFUSED
	s.Log(Ev{Kind: "icmp-refuse", Task: k.Task, Step: k.Step, Sock: k.ID})
}

func (s *Sim) TCPConnected(k *Socket) {
	if k.closed || k.state != 0 {
		return
	}
	k.state = 1
	s.Log(Ev{Kind: "tcp-synack", Task: k.Task, Step: k.Step, Sock: k.ID})
}

func (s *Sim) TCPRefused(k *Socket) {
	if k.closed || k.state != 0 {
		return
	}
	k.state = 2
	s.Log(Ev{Kind: "tcp-rst-syn", Task: k.Task, Step: k.Step, Sock: k.ID})
}

func (s *Sim) DeliverTCP(k *Socket, payload []byte, note string) {
	data := append([]byte(nil), payload...)
	if k.closed || k.state != 1 {
		s.Log(Ev{Kind: "tcp-lost", Task: k.Task, Step: k.Step, Sock: k.ID, N: len(data), Data: data, Note: note})
		return
	}
	k.q = append(k.q, dgram{from: k.remote, data: data, at: s.now, tag: note})
	s.Log(Ev{Kind: "tcp-arrive", Task: k.Task, Step: k.Step, Sock: k.ID, Src: k.remote.String(), N: len(data), Data: data, Note: note})
}

func (s *Sim) TCPReset(k *Socket) {
	if k.closed {
		return
	}
	k.rst = true
	s.Log(Ev{Kind: "tcp-rst", Task: k.Task, Step: k.Step, Sock: k.ID})
}

func (s *Sim) TCPFin(k *Socket) {
	if k.closed {
		return
	}
	k.fin = true
	s.Log(Ev{Kind: "tcp-fin", Task: k.Task, Step: k.Step, Sock: k.ID})
}

// ---- mutex state ----------------------------------------------------------------------------

type muState struct {
	id      int
	locked  bool
	readers int
	owner   *G
}

func (s *Sim) mu(key any) *muState {
	m := s.mus[key]
	if m == nil {
		s.muNames++
		m = &muState{id: s.muNames}
		s.mus[key] = m
	}
	return m
}

// toSim converts a wall-clock deadline of the bubble into simulated time (-1: none).
func (s *Sim) toSim(t time.Time) time.Duration {
	if t.IsZero() {
		return -1
	}
	d := t.Sub(s.epoch)
	if d < 0 {
		d = 0
	}
	return d
}

// itoa/pad: formatting without fmt. The scheduler and the hooks run with race-detector
// synchronisation events ignored, so they must not touch anything that hands memory between
// goroutines through sync.Pool (fmt does).
func itoa(v int64) string { return strconv.FormatInt(v, 10) }

func pad(v int64, w int) string {
	s := strconv.FormatInt(v, 10)
	for len(s) < w {
		s = "0" + s
	}
	return s
}
