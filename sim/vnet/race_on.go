//go:build race

package vnet

import (
	"runtime"
	"unsafe"
)

// RaceBuild reports whether the binary carries the race detector.
const RaceBuild = true

func raceDisable()                 { runtime.RaceDisable() }
func raceEnable()                  { runtime.RaceEnable() }
func raceAcquire(p unsafe.Pointer) { runtime.RaceAcquire(p) }
func raceRelease(p unsafe.Pointer) { runtime.RaceReleaseMerge(p) }
func raceErrors() int              { return runtime.RaceErrors() }
func raceSync(p unsafe.Pointer)    { runtime.RaceAcquire(p); runtime.RaceReleaseMerge(p) }
func RaceErrors() int              { return runtime.RaceErrors() }
func RaceDisable()                 { runtime.RaceDisable() }
func RaceEnable()                  { runtime.RaceEnable() }

// HandOver/TakeOver let the harness model a user-level hand-over of data between goroutines
// (e.g. a callback publishing what it was given) so that the detector sees it as synchronised.
func HandOver(p unsafe.Pointer) { runtime.RaceReleaseMerge(p) }
func TakeOver(p unsafe.Pointer) { runtime.RaceAcquire(p) }

// The kernel writes the caller's buffer during a receive and reads it during a send: to the detector
// these are accesses by the calling goroutine (the real syscall package annotates Read/Write the same way).
func raceWriteRange(b []byte, n int) {
	if n > 0 && n <= len(b) {
		runtime.RaceWriteRange(unsafe.Pointer(&b[0]), n)
	}
}
func raceReadRange(b []byte) {
	if len(b) > 0 {
		runtime.RaceReadRange(unsafe.Pointer(&b[0]), len(b))
	}
}
