// Package vnet is the simulated kernel under the uhppote-core library: sockets, clock-driven
// deadlines, a mutex and sleep - every one of them a scheduling point decided by one seeded
// scheduler that runs inside a testing/synctest bubble.
//
// The library's sources are compiled against this package through a build overlay (cmd/rewrite):
// net.ListenUDP/net.Dialer/*net.UDPConn/time.Sleep/sync.Mutex become their vnet namesakes.
//
// Ownership rule: all simulator state belongs to the scheduler goroutine. A hook (any exported
// function or method the library calls) copies its arguments, posts a request on the inbox and
// blocks on the request's own channel; it performs no effect itself.
package vnet

import (
	"sync/atomic"
	"bytes"
	"container/heap"
	"fmt"
	"hash/fnv"
	"math/rand"
	"net/netip"
	"runtime"
	"sort"
	"strings"
	"sync"
	"testing/synctest"
	"time"
)

// Ev is one entry of the run's trace. The sequence of Ev (minus Note) is what the
// determinism self-test hashes and what every oracle reads.
type Ev struct {
	Seq  int           `json:"seq"`
	T    time.Duration `json:"t"`
	Kind string        `json:"k"`
	G    string        `json:"g,omitempty"`
	Task int           `json:"task"`
	Step int           `json:"step"`
	Sock int           `json:"sock,omitempty"`
	Src  string        `json:"src,omitempty"`
	Dst  string        `json:"dst,omitempty"`
	N    int           `json:"n,omitempty"`
	Data []byte        `json:"data,omitempty"`
	Err  string        `json:"err,omitempty"`
	Note string        `json:"note,omitempty"`
}

// World is the far side of the network: simulated controllers, event senders, strangers.
// All methods are invoked on the scheduler goroutine.
type World interface {
	// A datagram left a library socket.
	UDPSend(s *Sim, sock *Socket, src, dst netip.AddrPort, payload []byte)
	// A TCP connect attempt left a library socket; the world answers with s.TCPConnected,
	// s.TCPRefused or never (black hole).
	TCPConnect(s *Sim, sock *Socket, src, dst netip.AddrPort)
	// Bytes written on an established connection.
	TCPSend(s *Sim, sock *Socket, payload []byte)
	// The library closed its end.
	TCPClose(s *Sim, sock *Socket)
	// A socket was created (bound).
	SockOpened(s *Sim, sock *Socket)
}

// Fault makes the n-th (0-based, counted per kind over the whole run) system call of a kind fail.
type Fault struct {
	Kind  string `json:"kind"` // bind, dial, setdeadline, udpwrite, tcpwrite
	Nth   int    `json:"nth"`
	Errno string `json:"errno"`
}

// Config of one simulated run.
type Config struct {
	Seed     int64         // scheduler PRNG (ignored for choices when Tape != nil)
	Tape     []int         // explicit choice tape (replay / minimisation); beyond its end: first enabled
	UseTape  bool          //
	HostIPs  []netip.Addr  // addresses the client host owns (first is primary)
	Bcast    []netip.Addr  // addresses the network treats as broadcast (255.255.255.255 is implicit)
	Foreign  []ForeignPort // ports held by another process
	Faults   []Fault       // injected system call failures
	Horizon  time.Duration // simulated time after which an unfinished run is a hang
	MaxSteps int           // scheduler steps after which an unfinished run is a livelock
	World    World
}

type ForeignPort struct {
	Proto string `json:"proto"` // udp | tcp
	Port  uint16 `json:"port"`
}

type event struct {
	at    time.Duration
	seq   uint64
	label string
	fn    func()
}

type evheap []*event

func (h evheap) Len() int { return len(h) }
func (h evheap) Less(i, j int) bool {
	if h[i].at != h[j].at {
		return h[i].at < h[j].at
	}
	return h[i].seq < h[j].seq
}
func (h evheap) Swap(i, j int) { h[i], h[j] = h[j], h[i] }
func (h *evheap) Push(x any)   { *h = append(*h, x.(*event)) }
func (h *evheap) Pop() any {
	old := *h
	n := len(old)
	x := old[n-1]
	*h = old[:n-1]
	return x
}

// Sim is one simulated run.
type Sim struct {
	cfg   Config
	inbox chan *req
	epoch time.Time // bubble time at start
	now   time.Duration
	rng   *rand.Rand // scheduler choices
	aux   *rand.Rand // kernel draws (ephemeral ports, tie-breaks between equally specific sockets)

	parked []*req
	events evheap
	evseq  uint64

	// goroutines
	gmu      sync.Mutex
	gs       []*G // linear registry: runtime map operations are visible to the race detector, our mutex is not
	pendingG []*G // seen by hooks, not yet named by the scheduler
	nameSeq  map[string]int

	tasks     int // started
	tasksDone int
	curStep   map[int]int

	socks    []*Socket
	mus      map[any]*muState
	muNames  int
	faultCnt map[string]int

	Trace   []Ev
	TapeOut []int
	Steps   int

	ended   bool
	Verdict string   // "", "hang", "livelock"
	Leaked  []string // parked requests left when the run ended (goroutines blocked in the kernel)
	Stats   map[string]int

	quiesceWaiters []*req
	running        atomic.Bool // the scheduler loop has started
}

var curMu sync.Mutex
var cur *Sim

// Progress counts scheduler iterations of the whole process. The scheduler can only make a step when every other
// goroutine of the run is durably blocked; a goroutine of the library that blocks on something the simulator does
// not own (a channel or lock that was created outside the run, e.g. at package level) stalls it for good - in real
// time. The worker watches this counter from outside the bubble.
var Progress atomic.Int64

func current() *Sim {
	curMu.Lock()
	s := cur
	curMu.Unlock()
	return s
}

// New prepares a run; it must be called inside the synctest bubble.
func New(cfg Config) *Sim {
	if cfg.Horizon == 0 {
		cfg.Horizon = time.Hour
	}
	if cfg.MaxSteps == 0 {
		cfg.MaxSteps = 200000
	}
	s := &Sim{
		cfg:      cfg,
		inbox:    make(chan *req, 4096),
		epoch:    time.Now(),
		rng:      rand.New(rand.NewSource(cfg.Seed)),
		aux:      rand.New(rand.NewSource(cfg.Seed ^ 0x5eed5eed)),
		nameSeq:  map[string]int{},
		curStep:  map[int]int{},
		mus:      map[any]*muState{},
		faultCnt: map[string]int{},
		Stats:    map[string]int{},
	}
	curMu.Lock()
	cur = s
	curMu.Unlock()
	resetSignals()
	return s
}

// Now is the simulated time since the start of the run.
func (s *Sim) Now() time.Duration { return s.now }

// Epoch is the bubble's wall clock at the start of the run.
func (s *Sim) Epoch() time.Time { return s.epoch }

// After schedules a world event (scheduler goroutine only).
func (s *Sim) After(d time.Duration, label string, fn func()) {
	if d < 0 {
		d = 0
	}
	s.evseq++
	heap.Push(&s.events, &event{at: s.now + d, seq: s.evseq, label: label, fn: fn})
}

// Log appends to the trace (scheduler goroutine only).
func (s *Sim) Log(e Ev) {
	e.Seq = len(s.Trace)
	e.T = s.now
	s.Trace = append(s.Trace, e)
}

func (s *Sim) logG(g *G, e Ev) {
	if g != nil {
		e.G = g.Name
		e.Task = g.Task
		e.Step = s.curStep[g.Task]
	} else {
		e.Task = -1
	}
	s.Log(e)
}

// Hash of the trace (determinism self-test).
func (s *Sim) Hash() uint64 {
	h := fnv.New64a()
	for _, e := range s.Trace {
		data := e.Data
		if e.Kind == "point" {
			data = noErrText(e.Note, data)
		}
		fmt.Fprintf(h, "%d|%d|%s|%s|%d|%d|%d|%s|%s|%d|%x|%s\n", e.Seq, e.T, e.Kind, e.G, e.Task, e.Step, e.Sock, e.Src, e.Dst, e.N, data, e.Err)
	}
	return h.Sum64()
}

// noErrText: the wording of an error the library returns is not part of what must repeat from run to run (an
// implementation that ranges over a map to validate its arguments may name a different culprit each time); that
// there was an error is. The harness reports results as JSON with the message under "err".
func noErrText(note string, data []byte) []byte {
	if note == "listen-end" {
		if len(data) > 2 { // a non-empty JSON string
			return []byte(`"E"`)
		}
		return data
	}
	key := []byte(`"err":"`)
	i := bytes.Index(data, key)
	if i < 0 {
		return data
	}
	j := i + len(key)
	k := j
	for k < len(data) && data[k] != '"' {
		if data[k] == '\\' {
			k++
		}
		k++
	}
	if k >= len(data) || k == j {
		return data
	}
	out := append([]byte{}, data[:j]...)
	out = append(out, 'E')
	return append(out, data[k:]...)
}

// choice among n alternatives (n >= 1).
func (s *Sim) choose(n int) int {
	var c int
	if s.cfg.UseTape {
		if len(s.TapeOut) < len(s.cfg.Tape) {
			c = s.cfg.Tape[len(s.TapeOut)]
			if c < 0 {
				c = 0
			}
			c %= n
		}
	} else if n > 1 {
		c = s.rng.Intn(n)
	}
	s.TapeOut = append(s.TapeOut, c)
	return c
}

type choice struct {
	key string
	r   *req
	ev  *event
	alt int // alternative completion of r (e.g. 1 = timeout although data is queued)
}

// Run drives the simulation until every task has finished and nothing is left to do.
// It must be called on the goroutine that will act as the scheduler, inside the bubble.
func (s *Sim) Run() {
	raceDisable()
	defer raceEnable()
	s.running.Store(true)

	for {
		synctest.Wait()
		Progress.Add(1)
		s.drain()

		if s.Steps >= s.cfg.MaxSteps {
			s.Verdict = "livelock"
			break
		}
		if s.now > s.cfg.Horizon {
			s.Verdict = "hang"
			break
		}

		en := s.enabled()
		if len(en) == 0 {
			if s.tasksDone == s.tasks && s.tasks > 0 && !s.parkedWillWake() {
				break
			}
			t, ok := s.nextTime()
			if !ok {
				// nothing of ours is pending: a library timer we do not own may be; give it the horizon
				t = s.cfg.Horizon + time.Nanosecond
			}
			s.sleepUntil(t)
			continue
		}

		s.Steps++
		c := en[s.choose(len(en))]
		s.apply(c)
	}

	s.finish()
}

func (s *Sim) sleepUntil(t time.Duration) {
	d := t - s.now
	if d <= 0 {
		return
	}
	tm := time.NewTimer(d)
	select {
	case <-tm.C:
	case r := <-s.inbox:
		tm.Stop()
		s.accept(r)
	}
	s.now = time.Since(s.epoch)
}

// parkedWillWake: some parked goroutine becomes runnable by the passage of time alone
// (a sleep, a read or connect with a deadline).
func (s *Sim) parkedWillWake() bool {
	for _, r := range s.parked {
		if w, has := r.wakeTime(); has && w > s.now {
			return true
		}
	}
	return false
}

func (s *Sim) nextTime() (time.Duration, bool) {
	var t time.Duration
	ok := false
	upd := func(x time.Duration) {
		if x <= s.now {
			return
		}
		if !ok || x < t {
			t, ok = x, true
		}
	}
	if len(s.events) > 0 {
		upd(s.events[0].at)
	}
	for _, r := range s.parked {
		if w, has := r.wakeTime(); has {
			upd(w)
		}
	}
	return t, ok
}

// drain takes every request posted since the last step, names new goroutines and parks the
// requests in a canonical order (the arrival order in the channel is the Go runtime's choice).
func (s *Sim) drain() {
	var batch []*req
	for {
		select {
		case r := <-s.inbox:
			batch = append(batch, r)
			continue
		default:
		}
		break
	}
	s.acceptAll(batch)
}

func (s *Sim) accept(r *req) { s.acceptAll([]*req{r}) }

func (s *Sim) acceptAll(batch []*req) {
	if len(batch) == 0 {
		return
	}
	s.nameGoroutines()
	sort.SliceStable(batch, func(i, j int) bool { return batch[i].sortKey() < batch[j].sortKey() })
	for _, r := range batch {
		switch r.kind {
		case rTaskEnd:
			s.tasksDone++
			s.logG(r.g, Ev{Kind: "task-end"})
		case rNote:
			s.logG(r.g, Ev{Kind: "note", Note: r.tag})
		default:
			r.since = s.now
			s.parked = append(s.parked, r)
		}
	}
}

func (s *Sim) enabled() []choice {
	var en []choice
	for _, r := range s.parked {
		if r.kind == rQuiesce {
			continue
		}
		ok, alt := s.ready(r)
		if ok {
			en = append(en, choice{key: "g:" + r.sortKey(), r: r})
			if alt {
				en = append(en, choice{key: "g:" + r.sortKey() + "~", r: r, alt: 1})
			}
		}
	}
	for _, e := range s.events {
		if e.at <= s.now {
			en = append(en, choice{key: "e:" + pad(int64(e.seq), 20), ev: e})
		}
	}
	if len(en) == 0 {
		// quiescent at this instant: serve checkpoint requests (lowest priority)
		for _, r := range s.parked {
			if r.kind == rQuiesce {
				en = append(en, choice{key: "q:" + r.sortKey(), r: r})
			}
		}
	}
	sort.Slice(en, func(i, j int) bool { return en[i].key < en[j].key })
	return en
}

func (s *Sim) unpark(r *req) {
	for i, p := range s.parked {
		if p == r {
			s.parked = append(s.parked[:i], s.parked[i+1:]...)
			return
		}
	}
}

func (s *Sim) apply(c choice) {
	if c.ev != nil {
		for i, e := range s.events {
			if e == c.ev {
				heap.Remove(&s.events, i)
				break
			}
		}
		c.ev.fn()
		return
	}
	s.complete(c.r, c.alt)
}

// reply wakes the goroutine parked on r.
func (s *Sim) reply(r *req, p resp) {
	s.unpark(r)
	r.wake <- p
}

func (s *Sim) finish() {
	s.ended = true
	// whatever is still parked is a goroutine blocked in the kernel after every task returned
	sort.SliceStable(s.parked, func(i, j int) bool { return s.parked[i].sortKey() < s.parked[j].sortKey() })
	for _, r := range s.parked {
		s.Leaked = append(s.Leaked, r.describe())
		s.logG(r.g, Ev{Kind: "leaked-blocked", Note: r.describe(), Sock: r.sockID()})
	}
	open := 0
	for _, k := range s.socks {
		if !k.closed {
			open++
			s.Log(Ev{Kind: "leaked-socket", Task: k.Task, Step: k.Step, Sock: k.ID, Src: k.local.String(), Note: k.kindName()})
		} else if s.dupHeld(k) {
			open++
			s.Log(Ev{Kind: "leaked-socket", Task: k.Task, Step: k.Step, Sock: k.ID, Src: k.local.String(), Note: k.kindName() + " (duplicated descriptor never closed)"})
		}
	}
	s.releaseDups()
	// release them so that the bubble can drain: each unwinds with runtime.Goexit in its hook
	parked := s.parked
	s.parked = nil
	for _, r := range parked {
		r.wake <- resp{ended: true}
	}
	// and keep releasing anything that still shows up
	for i := 0; i < 1000; i++ {
		synctest.Wait()
		n := 0
		for {
			select {
			case r := <-s.inbox:
				n++
				if r.wake != nil && r.kind != rTaskEnd && r.kind != rNote {
					r.wake <- resp{ended: true}
				}
				continue
			default:
			}
			break
		}
		if n == 0 {
			break
		}
	}
	curMu.Lock()
	if cur == s {
		cur = nil
	}
	curMu.Unlock()
}

// Go starts a harness task goroutine under scheduler control. fn begins to run when the
// scheduler picks the task's start event at simulated time 'at'.
func (s *Sim) Go(task int, name string, at time.Duration, fn func()) {
	s.tasks++
	go func() {
		raceDisable()
		g := s.register(name, task)
		raceEnable()
		post(s, &req{kind: rStart, g: g, d: at})
		fn()
		raceDisable()
		s.inbox <- &req{kind: rTaskEnd, g: g}
		raceEnable()
	}()
}

// ---- goroutine identity -------------------------------------------------------------------

// G is a goroutine known to the simulator. Names are deterministic: harness tasks are named
// by the harness; goroutines the library starts are named after their parent and creation site.
type G struct {
	ID     int64
	Name   string
	Task   int
	parent int64
	site   string
}

func goid() int64 {
	var buf [64]byte
	n := runtime.Stack(buf[:], false)
	// "goroutine 123 ["
	var id int64
	for i := len("goroutine "); i < n; i++ {
		c := buf[i]
		if c < '0' || c > '9' {
			break
		}
		id = id*10 + int64(c-'0')
	}
	return id
}

func (s *Sim) register(name string, task int) *G {
	g := &G{ID: goid(), Name: name, Task: task}
	s.gmu.Lock()
	s.gs = append(s.gs, g)
	s.gmu.Unlock()
	return g
}

func (s *Sim) lookupG(id int64) *G {
	for _, g := range s.gs {
		if g.ID == id {
			return g
		}
	}
	return nil
}

// me returns the record of the calling goroutine, creating an unnamed one (to be named by the
// scheduler) for a goroutine the library started.
func (s *Sim) me() *G {
	id := goid()
	s.gmu.Lock()
	g := s.lookupG(id)
	s.gmu.Unlock()
	if g != nil {
		return g
	}
	buf := make([]byte, 16384)
	for {
		n := runtime.Stack(buf, false)
		if n < len(buf) {
			buf = buf[:n]
			break
		}
		buf = make([]byte, 2*len(buf))
	}
	st := string(buf)
	g = &G{ID: id, Task: -1}
	if i := strings.LastIndex(st, "created by "); i >= 0 {
		rest := st[i+len("created by "):]
		line, after, _ := strings.Cut(rest, "\n")
		fn, par, _ := strings.Cut(line, " in goroutine ")
		for _, ch := range par {
			if ch < '0' || ch > '9' {
				break
			}
			g.parent = g.parent*10 + int64(ch-'0')
		}
		loc := strings.TrimSpace(after)
		if j := strings.IndexByte(loc, ' '); j >= 0 {
			loc = loc[:j]
		}
		if k := strings.LastIndexByte(loc, '/'); k >= 0 {
			loc = loc[k+1:]
		}
		if k := strings.LastIndexByte(fn, '/'); k >= 0 {
			fn = fn[k+1:]
		}
		g.site = fn + "@" + loc
	}
	s.gmu.Lock()
	s.gs = append(s.gs, g)
	s.pendingG = append(s.pendingG, g)
	s.gmu.Unlock()
	return g
}

func (s *Sim) nameGoroutines() {
	s.gmu.Lock()
	defer s.gmu.Unlock()
	if len(s.pendingG) == 0 {
		return
	}
	pend := s.pendingG
	s.pendingG = nil
	// parents first: iterate until no progress
	for len(pend) > 0 {
		var next []*G
		progress := false
		sort.SliceStable(pend, func(i, j int) bool {
			pi, pj := s.lookupG(pend[i].parent), s.lookupG(pend[j].parent)
			ni, nj := "?", "?"
			if pi != nil {
				ni = pi.Name
			}
			if pj != nil {
				nj = pj.Name
			}
			if ni != nj {
				return ni < nj
			}
			if pend[i].site != pend[j].site {
				return pend[i].site < pend[j].site
			}
			return pend[i].ID < pend[j].ID
		})
		for _, g := range pend {
			p := s.lookupG(g.parent)
			if p != nil && p.Name == "" {
				next = append(next, g)
				continue
			}
			base := "orphan"
			if p != nil {
				base = p.Name
				g.Task = p.Task
			}
			k := base + "/" + g.site
			n := s.nameSeq[k]
			s.nameSeq[k] = n + 1
			g.Name = k + "#" + itoa(int64(n))
			progress = true
		}
		if !progress {
			for _, g := range next {
				k := "orphan/" + g.site
				n := s.nameSeq[k]
				s.nameSeq[k] = n + 1
				g.Name = k + "#" + itoa(int64(n))
			}
			break
		}
		pend = next
	}
}
