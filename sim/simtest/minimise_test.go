package simtest

import (
	"encoding/json"
	"fmt"
	"os"
	"testing"

	"verif/sim/engine"
	"verif/sim/oracle"
)

func clone(sc *engine.Scenario) *engine.Scenario {
	b, _ := json.Marshal(sc)
	var c engine.Scenario
	json.Unmarshal(b, &c)
	return &c
}

// minimise shrinks a failing scenario (delta debugging over tasks, steps, emissions, fault sites,
// configuration, delays and the choice tape) while the same violation signature persists.
func minimise(t *testing.T, prop string, emit func(any)) {
	rec := loadRecord(t)
	if rec.Prop != "" {
		prop = rec.Prop
	}
	budget := int(envInt("VERIF_MIN_BUDGET", 3000))
	tried := 0
	var lastRes *engine.Result
	var lastVs []oracle.Violation
	fails := func(c *engine.Scenario) bool {
		tried++
		res := engine.Run(t, clone(c))
		vs := oracle.Check(prop, c, res)
		for _, v := range vs {
			if v.Sig == rec.Sig {
				lastRes, lastVs = res, vs
				return true
			}
		}
		return false
	}

	sc := clone(rec.Scenario)
	if !fails(sc) {
		emit(map[string]any{"kind": "minimise", "ok": false, "note": "the recorded run does not fail on replay"})
		return
	}

	try := func(c *engine.Scenario) bool {
		if tried >= budget {
			return false
		}
		if fails(c) {
			sc = c
			return true
		}
		return false
	}

	// 1. the schedule: all-first-enabled, else keep the recorded tape
	{
		c := clone(sc)
		c.Tape, c.UseTape = nil, true
		try(c)
	}

	for progress := true; progress && tried < budget; {
		progress = false

		// tasks
		for ti := len(sc.Tasks) - 1; ti >= 0 && len(sc.Tasks) > 1; ti-- {
			c := clone(sc)
			c.Tasks = append(c.Tasks[:ti], c.Tasks[ti+1:]...)
			if try(c) {
				progress = true
			}
		}
		// steps
		for ti := range sc.Tasks {
			for si := len(sc.Tasks[ti].Steps) - 1; si >= 0; si-- {
				if si >= len(sc.Tasks[ti].Steps) || len(sc.Tasks[ti].Steps) <= 1 {
					continue
				}
				c := clone(sc)
				c.Tasks[ti].Steps = append(c.Tasks[ti].Steps[:si], c.Tasks[ti].Steps[si+1:]...)
				if try(c) {
					progress = true
				}
			}
		}
		// emissions and feeds
		for ti := range sc.Tasks {
			for si := range sc.Tasks[ti].Steps {
				for ei := len(sc.Tasks[ti].Steps[si].Plan.Emits) - 1; ei >= 0; ei-- {
					if ei >= len(sc.Tasks[ti].Steps[si].Plan.Emits) {
						continue
					}
					c := clone(sc)
					e := c.Tasks[ti].Steps[si].Plan.Emits
					c.Tasks[ti].Steps[si].Plan.Emits = append(e[:ei], e[ei+1:]...)
					if try(c) {
						progress = true
					}
				}
				for ei := len(sc.Tasks[ti].Steps[si].Feed) - 1; ei >= 0; ei-- {
					if ei >= len(sc.Tasks[ti].Steps[si].Feed) {
						continue
					}
					c := clone(sc)
					e := c.Tasks[ti].Steps[si].Feed
					c.Tasks[ti].Steps[si].Feed = append(e[:ei], e[ei+1:]...)
					if try(c) {
						progress = true
					}
				}
			}
		}
		// fault sites, foreign ports
		for i := len(sc.Faults) - 1; i >= 0; i-- {
			c := clone(sc)
			c.Faults = append(c.Faults[:i], c.Faults[i+1:]...)
			if try(c) {
				progress = true
			}
		}
		for i := len(sc.Foreign) - 1; i >= 0; i-- {
			c := clone(sc)
			c.Foreign = append(c.Foreign[:i], c.Foreign[i+1:]...)
			if try(c) {
				progress = true
			}
		}
		// configured devices, endpoints
		for ci := range sc.Clients {
			for di := len(sc.Clients[ci].Devices) - 1; di >= 0; di-- {
				if di >= len(sc.Clients[ci].Devices) {
					continue
				}
				c := clone(sc)
				d := c.Clients[ci].Devices
				c.Clients[ci].Devices = append(d[:di], d[di+1:]...)
				if try(c) {
					progress = true
				}
			}
		}
		for i := len(sc.Endpoints) - 1; i >= 0; i-- {
			if i >= len(sc.Endpoints) {
				continue
			}
			c := clone(sc)
			c.Endpoints = append(c.Endpoints[:i], c.Endpoints[i+1:]...)
			if try(c) {
				progress = true
			}
		}
		// delays to the nearest boundary (0)
		for ti := range sc.Tasks {
			if sc.Tasks[ti].Start != 0 {
				c := clone(sc)
				c.Tasks[ti].Start = 0
				if try(c) {
					progress = true
				}
			}
			for si := range sc.Tasks[ti].Steps {
				st := &sc.Tasks[ti].Steps[si]
				for ei := range st.Plan.Emits {
					if st.Plan.Emits[ei].After != 0 {
						c := clone(sc)
						c.Tasks[ti].Steps[si].Plan.Emits[ei].After = 0
						if try(c) {
							progress = true
						}
					}
				}
				if len(st.Holds) > 0 {
					c := clone(sc)
					c.Tasks[ti].Steps[si].Holds = nil
					if try(c) {
						progress = true
					}
				}
				if st.Scribble || st.MutateRes {
					c := clone(sc)
					c.Tasks[ti].Steps[si].Scribble, c.Tasks[ti].Steps[si].MutateRes = false, false
					if try(c) {
						progress = true
					}
				}
			}
		}
		// the tape again: shorter prefixes
		if len(sc.Tape) > 0 {
			for _, n := range []int{0, len(sc.Tape) / 4, len(sc.Tape) / 2} {
				c := clone(sc)
				c.Tape = c.Tape[:n]
				if try(c) {
					progress = true
					break
				}
			}
		}
	}

	// final run: record the complete tape of the minimised scenario
	fails(sc)
	final := clone(sc)
	final.Tape, final.UseTape = lastRes.Tape, true
	res := engine.Run(t, clone(final))
	vs := oracle.Check(prop, final, res)
	ok := false
	for _, v := range vs {
		if v.Sig == rec.Sig {
			ok = true
			lastVs = vs
		}
	}
	out := Record{Prop: prop, Seed: rec.Seed, Code: rec.Code, Sig: rec.Sig, Violations: lastVs, Scenario: final,
		TraceHash: fmt.Sprintf("%x", res.Hash), TraceTail: tail(res, 80), Minimised: ok,
		Note: fmt.Sprintf("minimised with %d candidate runs", tried)}
	if !ok {
		// keep the un-minimised original rather than a file that does not reproduce
		out = *rec
		out.Note = "minimisation did not converge to a reproducing file; original kept"
	}
	b, _ := json.MarshalIndent(out, "", " ")
	if p := os.Getenv("VERIF_MIN_OUT"); p != "" {
		os.WriteFile(p, b, 0o644)
	}
	emit(map[string]any{"kind": "minimise", "ok": ok, "tried": tried, "steps": countSteps(final), "tape": len(final.Tape)})
}

func countSteps(sc *engine.Scenario) int {
	n := 0
	for _, t := range sc.Tasks {
		n += len(t.Steps)
	}
	return n
}
