// Package simtest is the worker binary of every check (a test binary, because testing/synctest
// needs a *testing.T). It is driven through environment variables by cmd/driver:
//
//	VERIF_PROP      property id (C01 ...)
//	VERIF_MODE      sweep | replay | minimise | selftest
//	VERIF_SEED0     first run index; VERIF_STRIDE: distance between this worker's run indices
//	VERIF_N         number of runs (0: until VERIF_BUDGET_S seconds have passed)
//	VERIF_BASE      VERIF_SEED of the check (run seed = base*1e9 + index)
//	VERIF_OUT       file receiving JSON lines
//	VERIF_FILE      replay / minimise input
package simtest

import (
	"runtime"
	"encoding/json"
	"fmt"
	"hash/fnv"
	"os"
	"sort"
	"strconv"
	"strings"
	"testing"
	"time"

	"verif/sim/engine"
	"verif/sim/gen"
	"verif/sim/model"
	"verif/sim/oracle"
	"verif/sim/vnet"
)

func envInt(k string, def int64) int64 {
	if v := os.Getenv(k); v != "" {
		if n, err := strconv.ParseInt(v, 10, 64); err == nil {
			return n
		}
	}
	return def
}

// Record of a failing run, also the replay file format.
type Record struct {
	Prop       string             `json:"property"`
	Seed       int64              `json:"seed"`
	Code       string             `json:"code"`
	Sig        string             `json:"signature"`
	Violations []oracle.Violation `json:"violations"`
	Scenario   *engine.Scenario   `json:"scenario"`
	TraceHash  string             `json:"trace_hash"`
	TraceTail  []string           `json:"trace_tail,omitempty"`
	Minimised  bool               `json:"minimised"`
	Note       string             `json:"note,omitempty"`
	RaceLog    string             `json:"race_log,omitempty"`
}

type Summary struct {
	Kind       string         `json:"kind"`
	Prop       string         `json:"property"`
	Runs       int            `json:"runs"`
	Failing    int            `json:"failing"`
	SimTimeNs  int64          `json:"sim_time_ns"`
	Steps      int64          `json:"sched_steps"`
	Calls      int            `json:"calls"`
	WallS      float64        `json:"wall_s"`
	Counters   map[string]int `json:"counters"`
	Shapes     []uint64       `json:"shapes"`     // distinct non-trivial run shapes
	Interleave []uint64       `json:"interleave"` // distinct scheduler decision sequences (C08)
	Nontrivial int            `json:"nontrivial"`
	DetChecked int            `json:"det_checked"`
	DetBad     int            `json:"det_bad"`
	Samples    []any          `json:"samples"`
	FirstSeed  int64          `json:"first_seed"`
	LastSeed   int64          `json:"last_seed"`
	RaceBuild  bool           `json:"race_build"`
	Seqs       []string       `json:"seqs"`      // distinct (path, class, class) prefixes of emission plans
	SeqSpace   int            `json:"seq_space"` // size of that space: paths x (1 + classes + classes^2)
}

func traceLine(e vnet.Ev) string {
	s := fmt.Sprintf("#%d t=%v %s", e.Seq, e.T, e.Kind)
	if e.G != "" {
		s += " g=" + e.G
	}
	if e.Task >= 0 || e.Step != 0 {
		s += fmt.Sprintf(" task=%d step=%d", e.Task, e.Step)
	}
	if e.Sock != 0 {
		s += fmt.Sprintf(" sock=%d", e.Sock)
	}
	if e.Src != "" {
		s += " src=" + e.Src
	}
	if e.Dst != "" {
		s += " dst=" + e.Dst
	}
	if e.N != 0 {
		s += fmt.Sprintf(" n=%d", e.N)
	}
	if e.Err != "" {
		s += " err=" + e.Err
	}
	if e.Note != "" {
		s += " " + e.Note
	}
	if len(e.Data) > 0 && e.Kind != "point" {
		d := e.Data
		if len(d) > 24 {
			d = d[:24]
		}
		s += fmt.Sprintf(" data=%x", d)
	} else if len(e.Data) > 0 {
		d := e.Data
		if len(d) > 300 {
			d = d[:300]
		}
		s += " " + string(d)
	}
	return s
}

func tail(res *engine.Result, n int) []string {
	tr := res.Trace
	if len(tr) > n {
		tr = tr[len(tr)-n:]
	}
	var out []string
	for _, e := range tr {
		out = append(out, traceLine(e))
	}
	return out
}

// shape of a run: the sequence of event kinds with their outcome class - not times, not payloads.
func shape(res *engine.Result) (h uint64, nontrivial bool) {
	f := fnv.New64a()
	for _, e := range res.Trace {
		switch e.Kind {
		case "udp-send", "tcp-syn", "udp-arrive", "tcp-arrive":
			nontrivial = true
		}
		fmt.Fprintf(f, "%s|%s|%d|%s;", e.Kind, e.Err, e.Task, roleOf(e))
	}
	return f.Sum64(), nontrivial
}

func roleOf(e vnet.Ev) string {
	if e.Kind == "point" {
		return e.Note
	}
	if e.Kind == "read" {
		return fmt.Sprint(e.N == 64)
	}
	return ""
}

func tapeHash(t []int) uint64 {
	f := fnv.New64a()
	for _, c := range t {
		fmt.Fprintf(f, "%d,", c)
	}
	return f.Sum64()
}

// plan counts what the scenario set out to do: operations, delivery paths, and - for the class-sequence
// coverage of C03 - the classes of the first two datagrams of every emission plan in arrival order.
func plan(sum *Summary, sc *engine.Scenario, seqs map[string]bool) {
	c := sum.Counters
	for _, t := range sc.Tasks {
		for _, st := range t.Steps {
			switch st.Kind {
			case "call":
				c["op:"+st.Op.String()]++
				rt := model.RouteOf(gen.ClientConf(&sc.Clients[st.Client]), st.Op, st.Args.Serial)
				c["path:"+rt.Path]++
				em := append([]engine.Emit{}, st.Plan.Emits...)
				sort.SliceStable(em, func(i, j int) bool { return em[i].After < em[j].After })
				key := rt.Path
				for i := 0; i < len(em) && i < 2; i++ {
					key += ">" + em[i].Class
				}
				seqs[key] = true
			case "listen":
				c["listen-steps"]++
				c["listen-datagrams"] += len(st.Feed)
			default:
				c["step:"+st.Kind]++
			}
		}
	}
	if sc.TZ != "" {
		c["zones-used"]++
	}
	c["profile:"+sc.Profile]++
	if gen.IsCold(sc.Seed) {
		c["profile:cold-start-storm"]++
	}
}

func count(sum *Summary, res *engine.Result) {
	c := sum.Counters
	for k, v := range res.Stats {
		c["kernel:"+k] += v
	}
	for _, e := range res.Trace {
		switch e.Kind {
		case "udp-arrive", "tcp-arrive", "udp-lost", "tcp-lost":
			c[e.Kind+":"+classOf(e.Note)]++
		case "read-fail", "write-fail", "dial-fail", "bind-fail":
			c[e.Kind+":"+e.Err]++
		case "tcp-rst", "tcp-fin", "icmp-refuse", "tcp-rst-syn", "tcp-synack", "sleep", "leaked-blocked", "leaked-socket", "scribble":
			c[e.Kind]++
		case "lock":
			c[e.Kind]++
			if e.Note != "" && e.Note != "0" {
				c["probe:lock-had-to-wait"]++
			}
		case "point":
			switch e.Note {
			case "call-begin":
				sum.Calls++
			case "on-event", "on-error", "on-connected", "stop", "mutate-config", "mutate-devlist", "clone", "checkpoint":
				c["harness:"+e.Note]++
			}
		}
	}
	if res.Verdict != "" {
		c["verdict:"+res.Verdict]++
	}
}

func classOf(note string) string {
	// feed notes look like feed:<n>:<class>
	if len(note) > 5 && note[:5] == "feed:" {
		for i := 5; i < len(note); i++ {
			if note[i] == ':' {
				return "feed-" + note[i+1:]
			}
		}
	}
	if note == "" {
		return "?"
	}
	if i := strings.IndexByte(note, '@'); i >= 0 {
		note = note[:i]
	}
	return note
}

func runSeed(base, idx int64) int64 { return base*1000000000 + idx }

// profileOf: the generator profile of a run. Every fourth run of a sweep takes its scenario from the profile of
// another property (those listed in cross[prop]): the property is then judged in contexts that were built to
// stress something else. VERIF_PROFILE forces one profile (development aid).
func profileOf(prop string, idx int64) string {
	if p := os.Getenv("VERIF_PROFILE"); p != "" {
		return p
	}
	if others := cross[prop]; len(others) > 0 && idx%4 == 3 && idx < gen.ColdIndex0 {
		return others[int(idx/4)%len(others)]
	}
	return prop
}

// Which profiles a property's oracle is also run over. Left out: C04's profile everywhere but under C04's own
// oracle (its arguments are deliberately outside every accepted domain), and for C08 every profile whose network
// misbehaves (C08 quantifies over controllers that answer validly and in time). C10/C11 only where the other
// profile has listeners / discovery calls at all.
var cross = map[string][]string{
	"C01": {"C02", "C03", "C06", "C07", "C08", "C09", "C10", "C11", "C13", "C17"},
	"C02": {"C01", "C03", "C06", "C07", "C08", "C09", "C11", "C13", "C17"},
	"C03": {"C01", "C02", "C06", "C07", "C08", "C09", "C11", "C13", "C17"},
	"C04": {"C01", "C02", "C03", "C06", "C07", "C08", "C09", "C10", "C11", "C13", "C17"},
	"C06": {"C01", "C02", "C03", "C07", "C08", "C09", "C11", "C13", "C17"},
	"C07": {"C01", "C02", "C03", "C06", "C08", "C09", "C13", "C17"},
	"C08": {"C10", "C11", "C17"},
	"C09": {"C01", "C02", "C03", "C06", "C07", "C08", "C10", "C11", "C13", "C17"},
	"C10": {"C08", "C09", "C13", "C17"},
	"C11": {"C01", "C06", "C08", "C09", "C17"},
	"C13": {"C01", "C02", "C03", "C06", "C07", "C08", "C09", "C10", "C11", "C17"},
	"C17": {"C01", "C02", "C03", "C06", "C07", "C08", "C09", "C10", "C11", "C13"},
}

func TestWorker(t *testing.T) {
	prop := os.Getenv("VERIF_PROP")
	if prop == "" {
		t.Skip("VERIF_PROP not set")
	}
	gen.Thorough = os.Getenv("VERIF_TIER") == "thorough"
	go stuckWatch()
	mode := os.Getenv("VERIF_MODE")
	if mode == "" {
		mode = "sweep"
	}
	out := os.Stdout
	if p := os.Getenv("VERIF_OUT"); p != "" {
		f, err := os.OpenFile(p, os.O_CREATE|os.O_WRONLY|os.O_APPEND, 0o644)
		if err != nil {
			t.Fatal(err)
		}
		defer f.Close()
		out = f
	}
	emit := func(v any) {
		b, _ := json.Marshal(v)
		out.Write(append(b, '\n'))
	}

	switch mode {
	case "hashes":
		// determinism self-test: one line per run, compared across processes and GOMAXPROCS by tools/determinism.sh
		base, idx0, n := envInt("VERIF_BASE", 1), envInt("VERIF_SEED0", 0), envInt("VERIF_N", 100)
		for i := int64(0); i < n; i++ {
			seed := runSeed(base, idx0+i)
			res := engine.Run(t, gen.Generate(profileOf(prop, idx0+i), seed))
			emit(map[string]any{"seed": seed, "hash": fmt.Sprintf("%x", res.Hash), "steps": res.Steps})
		}
		return
	case "replay":
		replay(t, prop, emit)
		return
	case "minimise":
		minimise(t, prop, emit)
		return
	}

	base := envInt("VERIF_BASE", 1)
	idx0 := envInt("VERIF_SEED0", 0)
	stride := envInt("VERIF_STRIDE", 1)
	n := envInt("VERIF_N", 100)
	budget := time.Duration(envInt("VERIF_BUDGET_S", 0)) * time.Second
	detEvery := envInt("VERIF_DET_EVERY", 50)
	maxFail := int(envInt("VERIF_MAX_FAIL", 20))
	progress := os.Getenv("VERIF_PROGRESS")

	sum := &Summary{Kind: "summary", Prop: prop, Counters: map[string]int{}, RaceBuild: vnet.RaceBuild}
	shapes := map[uint64]bool{}
	inter := map[uint64]bool{}
	seqs := map[string]bool{}
	start := time.Now()
	sigSeen := map[string]int{}

	for i := int64(0); n == 0 || i < n; i++ {
		if budget > 0 && time.Since(start) > budget {
			break
		}
		if n == 0 && budget == 0 {
			break
		}
		idx := idx0 + i*stride
		seed := runSeed(base, idx)
		if progress != "" {
			os.WriteFile(progress, []byte(fmt.Sprintf("%d %d\n", idx, seed)), 0o644)
		}
		profile := profileOf(prop, idx)
		sc := gen.Generate(profile, seed)
		res := engine.Run(t, sc)
		vs := oracle.Check(prop, sc, res)
		if res.Steps == 0 && len(sc.Tasks) > 0 {
			// the scheduler never made a step: the harness could not even start the run (a constructor of the library
			// blocked on something the simulated kernel has to serve). Nothing about the property can be concluded
			emit(map[string]any{"kind": "infrastructure", "seed": seed, "msg": "the simulated run did not start: " + res.BubblePanic})
		}

		if sum.Runs == 0 {
			sum.FirstSeed = seed
		}
		sum.LastSeed = seed
		sum.Runs++
		sum.SimTimeNs += int64(res.SimTime)
		sum.Steps += int64(res.Steps)
		count(sum, res)
		plan(sum, sc, seqs)
		h, nt := shape(res)
		if nt {
			sum.Nontrivial++
			shapes[h] = true
		}
		inter[tapeHash(res.Tape)] = true
		if len(sum.Samples) < 2 && nt {
			sum.Samples = append(sum.Samples, map[string]any{"seed": seed, "scenario": sc, "trace": tail(res, 60)})
		}

		if detEvery > 0 && i%detEvery == 0 {
			sc2 := gen.Generate(profile, seed)
			res2 := engine.Run(t, sc2)
			sum.DetChecked++
			if res2.Hash != res.Hash {
				sum.DetBad++
				emit(map[string]any{"kind": "nondeterminism", "seed": seed, "hash1": fmt.Sprintf("%x", res.Hash), "hash2": fmt.Sprintf("%x", res2.Hash), "diff": firstDivergence(res, res2)})
			}
		}

		onlyRace := len(vs) > 0
		for _, v := range vs {
			if v.Code != "race" {
				onlyRace = false
			}
		}
		if len(vs) > 0 && !onlyRace && !gen.IsCold(seed) {
			// (a cold-start run cannot be repeated in this process - it is no longer cold; the driver confirms
			// it by replaying the record in a fresh process)
			// a violation is a property of (scenario, schedule): it must show again when the very same run is
			// repeated; what does not is counted and not reported (the race detector reports once per process)
			sc2 := gen.Generate(profile, seed)
			res2 := engine.Run(t, sc2)
			vs2 := oracle.Check(prop, sc2, res2)
			var keep []oracle.Violation
			for _, v := range vs {
				// what the trace itself shows is a fact of that execution even if the library does not behave the same
				// way twice (a map ranged over, a cache that is warm the second time): only the verdicts that rest on
				// counting the process's goroutines need to show again
				again := v.Code == "race" || !(v.Code == "goroutine-leak" || v.Code == "goroutines-remain")
				for _, w := range vs2 {
					if w.Code == v.Code {
						again = true
					}
				}
				if again {
					keep = append(keep, v)
				} else {
					sum.Counters["unconfirmed:"+v.Sig]++
				}
			}
			vs = keep
		}
		if len(vs) > 0 {
			sum.Failing++
			v := vs[0]
			sigSeen[v.Sig]++
			if sigSeen[v.Sig] <= 3 && sum.Failing <= maxFail*10 {
				sc.Tape = res.Tape
				sc.UseTape = true
				emit(Record{Prop: prop, Seed: seed, Code: v.Code, Sig: v.Sig, Violations: vs, Scenario: sc,
					TraceHash: fmt.Sprintf("%x", res.Hash), TraceTail: tail(res, 40)})
			} else {
				emit(map[string]any{"kind": "violation-brief", "seed": seed, "signature": v.Sig})
			}
		}
	}
	sum.WallS = time.Since(start).Seconds()
	for h := range shapes {
		sum.Shapes = append(sum.Shapes, h)
	}
	sort.Slice(sum.Shapes, func(i, j int) bool { return sum.Shapes[i] < sum.Shapes[j] })
	if prop == "C08" || prop == "C10" || prop == "C11" || prop == "C09" {
		for h := range inter {
			sum.Interleave = append(sum.Interleave, h)
		}
		sort.Slice(sum.Interleave, func(i, j int) bool { return sum.Interleave[i] < sum.Interleave[j] })
	}
	for k := range seqs {
		sum.Seqs = append(sum.Seqs, k)
	}
	sort.Strings(sum.Seqs)
	sum.SeqSpace = 3 * (1 + gen.NumClasses03 + gen.NumClasses03*gen.NumClasses03)
	emit(sum)
}

func firstDivergence(a, b *engine.Result) string {
	for i := 0; i < len(a.Trace) && i < len(b.Trace); i++ {
		x, y := traceLine(a.Trace[i]), traceLine(b.Trace[i])
		if x != y {
			return fmt.Sprintf("at %d: %q vs %q", i, x, y)
		}
	}
	return fmt.Sprintf("lengths %d vs %d", len(a.Trace), len(b.Trace))
}

func loadRecord(t *testing.T) *Record {
	b, err := os.ReadFile(os.Getenv("VERIF_FILE"))
	if err != nil {
		t.Fatal(err)
	}
	var rec Record
	if err := json.Unmarshal(b, &rec); err != nil {
		t.Fatal(err)
	}
	return &rec
}

func replay(t *testing.T, prop string, emit func(any)) {
	rec := loadRecord(t)
	if rec.Prop != "" {
		prop = rec.Prop
	}
	res := engine.Run(t, rec.Scenario)
	vs := oracle.Check(prop, rec.Scenario, res)
	same := false
	for _, v := range vs {
		if v.Sig == rec.Sig {
			same = true
		}
	}
	emit(map[string]any{"kind": "replay", "property": prop, "violations": vs, "same_signature": same,
		"trace_hash": fmt.Sprintf("%x", res.Hash), "same_hash": fmt.Sprintf("%x", res.Hash) == rec.TraceHash, "trace": tail(res, 200)})
}

// stuckWatch ends the process when the scheduler has not made a step for a minute of real time: a goroutine of the
// library is blocked on something outside the simulation (see vnet.Progress). The driver treats that like any other
// death of a worker: it runs the seed again, alone, and reports it only if it happens again.
func stuckWatch() {
	last, since := vnet.Progress.Load(), time.Now()
	limit := time.Duration(envInt("VERIF_STUCK_S", 60)) * time.Second
	for {
		time.Sleep(2 * time.Second)
		now := vnet.Progress.Load()
		if now != last || !engine.Running.Load() {
			last, since = now, time.Now()
			continue
		}
		if time.Since(since) < limit {
			continue
		}
		buf := make([]byte, 1<<20)
		n := runtime.Stack(buf, true)
		var keep []string
		for _, g := range strings.Split(string(buf[:n]), "\n\n") {
			if strings.Contains(g, "/repo/") && !strings.Contains(g, "vnet.post") {
				lines := strings.Split(g, "\n")
				if len(lines) > 9 {
					lines = lines[:9]
				}
				keep = append(keep, strings.Join(lines, "\n"))
			}
		}
		if len(keep) > 6 {
			keep = keep[:6]
		}
		fmt.Fprintf(os.Stderr, "fatal error: simulated run stuck: a goroutine of the library is blocked on something the simulator does not own (a channel or lock created outside the run)\n\n%s\n", strings.Join(keep, "\n\n"))
		os.Exit(3)
	}
}
