package zones

import "testing"

func TestKnown(t *testing.T) {
	has := func(name string, d Day) bool {
		for _, x := range MissingMidnights(name) {
			if x == d {
				return true
			}
		}
		return false
	}
	if !has("America/Santiago", Day{2022, 9, 11}) {
		t.Errorf("Santiago 2022-09-11 not found: %v", MissingMidnights("America/Santiago"))
	}
	if !has("America/Sao_Paulo", Day{2018, 11, 4}) {
		t.Errorf("Sao_Paulo 2018-11-04 not found")
	}
	if !has("America/Havana", Day{2018, 3, 11}) {
		t.Errorf("Havana 2018-03-11 not found")
	}
	if !NoInstant(Load("Pacific/Apia"), 2011, 12, 30) {
		t.Errorf("Apia 2011-12-30 should have no instant")
	}
	if NoInstant(Load("Pacific/Apia"), 2011, 12, 29) {
		t.Errorf("Apia 2011-12-29 exists")
	}
	n, z := 0, 0
	for _, name := range Names {
		if Load(name) == nil {
			continue
		}
		z++
		n += len(MissingMidnights(name))
	}
	t.Logf("%d zones loadable, %d (zone, day) pairs without local midnight", z, n)
}

func TestGaps(t *testing.T) {
	g := Gaps("America/New_York")
	found := false
	for _, x := range g {
		if x.Y == 2024 && x.M == 3 && x.D == 10 {
			found = true
			if x.H != 2 || x.Mi != 0 || x.Len != 3600 {
				t.Fatalf("unexpected gap %+v", x)
			}
			loc := Load("America/New_York")
			if y, mo, d, h, mi, s := x.At(1800); CivilExists(loc, y, mo, d, h, mi, s) {
				t.Fatalf("02:30 exists?")
			}
			if y, mo, d, h, mi, s := x.At(-1); !CivilExists(loc, y, mo, d, h, mi, s) {
				t.Fatalf("01:59:59 does not exist?")
			}
			if y, mo, d, h, mi, s := x.At(x.Len); !CivilExists(loc, y, mo, d, h, mi, s) {
				t.Fatalf("03:00:00 does not exist?")
			}
		}
	}
	if !found {
		t.Fatal("no gap on 2024-03-10 in America/New_York")
	}
	if len(Gaps("UTC")) != 0 {
		t.Fatal("UTC has gaps")
	}
}
