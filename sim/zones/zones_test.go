package zones

import "testing"

func TestKnown(t *testing.T) {
	has := func(name string, d Day) bool {
		for _, x := range MissingMidnights(name) {
			if x == d {
				return true
			}
		}
		return false
	}
	if !has("America/Santiago", Day{2022, 9, 11}) {
		t.Errorf("Santiago 2022-09-11 not found: %v", MissingMidnights("America/Santiago"))
	}
	if !has("America/Sao_Paulo", Day{2018, 11, 4}) {
		t.Errorf("Sao_Paulo 2018-11-04 not found")
	}
	if !has("America/Havana", Day{2018, 3, 11}) {
		t.Errorf("Havana 2018-03-11 not found")
	}
	if !NoInstant(Load("Pacific/Apia"), 2011, 12, 30) {
		t.Errorf("Apia 2011-12-30 should have no instant")
	}
	if NoInstant(Load("Pacific/Apia"), 2011, 12, 29) {
		t.Errorf("Apia 2011-12-29 exists")
	}
	n, z := 0, 0
	for _, name := range Names {
		if Load(name) == nil {
			continue
		}
		z++
		n += len(MissingMidnights(name))
	}
	t.Logf("%d zones loadable, %d (zone, day) pairs without local midnight", z, n)
}
