// Package zones finds, from Go's own zone data, where civil time has holes: days whose local
// midnight does not exist, and calendar days a zone skipped entirely.
package zones

import (
	"sync"
	"time"
	_ "time/tzdata"
)

type Day struct{ Y, M, D int }

var (
	mu     sync.Mutex
	locs   = map[string]*time.Location{}
	missed = map[string][]Day{}
	gaps   = map[string][]Gap{}
)

// Gap is an interval of civil time that a zone skipped: the local clock jumped from the civil time
// (Y, M, D, H, Mi, S) forward by Len seconds.
type Gap struct {
	Y, M, D, H, Mi, S int
	Len               int
}

// At returns the civil time off seconds after the beginning of the gap.
func (g Gap) At(off int) (y, mo, d, h, mi, s int) {
	t := time.Date(g.Y, time.Month(g.M), g.D, g.H, g.Mi, g.S+off, 0, time.UTC)
	return t.Year(), int(t.Month()), t.Day(), t.Hour(), t.Minute(), t.Second()
}

// Gaps lists the forward jumps of the zone's local clock between 1900 and 2100 (daylight saving begins,
// a standard-time change eastwards), found by walking the zone's offset changes.
func Gaps(name string) []Gap {
	mu.Lock()
	if v, ok := gaps[name]; ok {
		mu.Unlock()
		return v
	}
	mu.Unlock()
	loc := Load(name)
	var out []Gap
	if loc != nil {
		t := time.Date(1900, 1, 1, 0, 0, 0, 0, time.UTC).In(loc)
		end := time.Date(2100, 1, 1, 0, 0, 0, 0, time.UTC)
		for i := 0; i < 2000 && t.Before(end); i++ {
			_, e := t.ZoneBounds()
			if e.IsZero() {
				break
			}
			_, before := e.Add(-time.Second).Zone()
			_, after := e.Zone()
			if after > before {
				l0 := e.Add(-time.Second).In(loc)
				c := time.Date(l0.Year(), l0.Month(), l0.Day(), l0.Hour(), l0.Minute(), l0.Second()+1, 0, time.UTC)
				out = append(out, Gap{c.Year(), int(c.Month()), c.Day(), c.Hour(), c.Minute(), c.Second(), after - before})
			}
			t = e
		}
	}
	mu.Lock()
	gaps[name] = out
	mu.Unlock()
	return out
}

// Load returns the zone, or nil if the tz database at hand does not know it.
func Load(name string) *time.Location {
	mu.Lock()
	defer mu.Unlock()
	if l, ok := locs[name]; ok {
		return l
	}
	l, err := time.LoadLocation(name)
	if err != nil {
		l = nil
	}
	locs[name] = l
	return l
}

// CivilExists: the civil date-time denotes an instant in the zone.
func CivilExists(loc *time.Location, y, mo, d, h, mi, s int) bool {
	t := time.Date(y, time.Month(mo), d, h, mi, s, 0, loc)
	yy, mm, dd := t.Date()
	hh, mmi, ss := t.Clock()
	return yy == y && int(mm) == mo && dd == d && hh == h && mmi == mi && ss == s
}

// NoInstant: the zone skipped the calendar day entirely (e.g. 2011-12-30 in Pacific/Apia).
func NoInstant(loc *time.Location, y, m, d int) bool {
	for _, hm := range [][2]int{{0, 0}, {6, 0}, {12, 0}, {18, 0}, {23, 59}} {
		t := time.Date(y, time.Month(m), d, hm[0], hm[1], 0, 0, loc)
		yy, mm, dd := t.Date()
		if yy == y && int(mm) == m && dd == d {
			return false
		}
	}
	return true
}

// MissingMidnights lists the days between 1900 and 2100 whose local 00:00:00 does not exist in
// the zone although the day itself does: found by walking the zone's offset changes.
func MissingMidnights(name string) []Day {
	mu.Lock()
	if v, ok := missed[name]; ok {
		mu.Unlock()
		return v
	}
	mu.Unlock()
	loc := Load(name)
	var out []Day
	if loc != nil {
		t := time.Date(1900, 1, 1, 0, 0, 0, 0, time.UTC).In(loc)
		end := time.Date(2100, 1, 1, 0, 0, 0, 0, time.UTC)
		for i := 0; i < 2000 && t.Before(end); i++ {
			_, e := t.ZoneBounds()
			if e.IsZero() {
				break
			}
			_, before := e.Add(-time.Second).Zone()
			_, after := e.Zone()
			if after > before {
				// local clock jumps from L to L+(after-before) at instant e
				l0 := e.Add(-time.Second).In(loc) // one second before the jump, old offset
				// civil time one second later would be l0+1s in the old offset
				oldCivil := time.Date(l0.Year(), l0.Month(), l0.Day(), l0.Hour(), l0.Minute(), l0.Second()+1, 0, time.UTC)
				newCivil := oldCivil.Add(time.Duration(after-before) * time.Second)
				// midnights in [oldCivil, newCivil)
				day := time.Date(oldCivil.Year(), oldCivil.Month(), oldCivil.Day(), 0, 0, 0, 0, time.UTC)
				for ; day.Before(newCivil); day = day.AddDate(0, 0, 1) {
					if !day.Before(oldCivil) {
						y, m, d := day.Date()
						if !CivilExists(loc, y, int(m), d, 0, 0, 0) && !NoInstant(loc, y, int(m), d) {
							out = append(out, Day{y, int(m), d})
						}
					}
				}
			}
			t = e
		}
	}
	mu.Lock()
	missed[name] = out
	mu.Unlock()
	return out
}
