package oracle

import (
	"encoding/json"
	"fmt"
	"net/netip"
	"reflect"
	"regexp"
	"sort"
	"strings"
	"time"

	"verif/sim/engine"
	"verif/sim/gen"
	"verif/sim/model"
	"verif/sim/vnet"
	"verif/sim/zones"
)

func init() {
	more["C09"] = checkC09
	more["C10"] = checkC10
	more["C11"] = checkC11
	more["C17"] = checkC17
	more["C04"] = checkC04
	more["C08"] = checkC08
	more["C13"] = checkC13
}

// ---- C08 ------------------------------------------------------------------------------------

func checkC08(an *Analysis, add func(Violation)) {
	for _, c := range an.Calls {
		if c.Begin == nil || c.Rec == nil || c.Reject != "" {
			continue
		}
		v := func(code, detail string) {
			add(Violation{Code: code, Sig: "C08:" + code + ":" + c.Route.Path, Task: c.Task, Step: c.Step,
				Detail: fmt.Sprintf("%v serial=%d path=%s timeout=%v bind=%q (one of %d concurrent tasks): %s", c.name(), c.St.Args.Serial, c.Route.Path, c.Client.Timeout, c.Client.Bind, len(an.Sc.Tasks), detail)})
		}
		if c.End == nil {
			v("never-returned", "the call never returned")
			continue
		}
		if c.Rec.Obs.Panic != "" {
			continue
		}
		for _, f := range c.KFails {
			if f.Err == "address already in use" && len(an.Sc.Foreign) == 0 {
				v("port-in-use", "the call failed to bind the shared fixed port while another call of the same process was using it: "+c.Rec.Obs.Err)
			}
		}
		if c.St.Op == model.GetDevices {
			continue
		}
		notMine := false
		for _, f := range c.KFails {
			if f.Note == "injected" || strings.Contains(f.Err, "cannot assign requested address") {
				notMine = true // the call could not get a socket at all (an address the host does not have): it never asked
			}
			if f.Err == "address already in use" && len(an.Sc.Foreign) > 0 {
				notMine = true // another process holds the port
			}
			if strings.Contains(f.Err, "connection refused") {
				notMine = true // nobody accepts connections there (a controller listed at an address that is not one)
			}
		}
		if notMine {
			continue
		}
		if !c.St.Op.HasReply() {
			if c.Rec.Obs.Failed() {
				v("own-reply", "the call failed: "+c.Rec.Obs.Err)
			}
			continue
		}
		// the reply generated for this call's own request
		var own []byte
		for _, e := range c.St.Plan.Emits {
			if e.Class == "valid" {
				own = e.Data
			}
		}
		if own == nil {
			continue
		}
		_, ref := an.decideOn(c, own)
		if an.foreignDeciding(c) {
			continue // a stale datagram of an earlier call on the shared port decided this one: C03's business
		}
		if ok, _ := an.mustSucceed(c, c.Client.Timeout); !ok {
			continue // something else in the plan decides first, or at the same instant
		}
		if c.Rec.Obs.Failed() {
			if ref.Fail == 0 {
				v("own-reply", fmt.Sprintf("its controller answered within the timeout of being asked (turn began %v after the call) but the call failed: %s", turnOf(c)-c.Begin.T, c.Rec.Obs.Err))
			}
			continue
		}
		if a, det := ref.Check(c.Rec.Obs); a != "" {
			// whose reply is it?
			whose := ""
			for _, o := range an.Calls {
				if o == c || o.St.Op != c.St.Op {
					continue
				}
				for _, e := range o.St.Plan.Emits {
					if e.Class != "valid" || len(e.Data) != 64 {
						continue
					}
					_, alt := an.decideOn(c, e.Data)
					if x, _ := alt.Check(c.Rec.Obs); x == "" {
						whose = fmt.Sprintf(" - it is the reply to the %v of task %d step %d", o.name(), o.Task, o.Step)
					}
				}
			}
			v("crossed-reply", fmt.Sprintf("the result is not the reply to its own request (%s: %s)%s\n  own reply: %s\n  observed: %v", a, det, whose, hexs(own), c.Rec.Obs))
		}
	}
	if an.Res.Races > 0 {
		add(Violation{Code: "race", Sig: "C08:race:" + an.Res.RaceSig, Detail: "the race detector reported a data race in the library:\n" + an.Res.RaceLog})
	}
	// discovery alongside: same oracle as C11
	checkC11(an, func(v Violation) {
		v.Sig = "C08:discovery:" + v.Code
		add(v)
	})
}

func turnOf(c *Call) time.Duration { return c.Turn() }

// decideOn: the reference reading of one particular datagram as the reply to call c.
func (an *Analysis) decideOn(c *Call, data []byte) (bool, model.Expect) {
	S := c.St.Args.Serial
	conf := gen.ClientConf(c.Client)
	ctx := model.Ctx{Name: model.NameOf(conf, S)}
	ports := map[uint16]bool{60000: true, model.BroadcastPort(conf): true}
	for _, d := range conf.Devices {
		if d.ID == S {
			if ap, err := netip.ParseAddrPort(d.Addr); err == nil && ap.Port() != 0 {
				ports[ap.Port()] = true
			}
		}
	}
	for p := range ports {
		ctx.Ports = append(ctx.Ports, p)
	}
	if len(data) != 64 || model.Serial(data) != S || !model.HeaderOK(c.St.Op, data) {
		return false, model.Expect{Fail: 2}
	}
	return true, model.Decode(c.St.Op, &c.St.Args, data, ctx)
}

// ---- C04 ------------------------------------------------------------------------------------

var panicSite = regexp.MustCompile(`/repo/([^ :|]+:\d+)`)

func checkC04(an *Analysis, add func(Violation)) {
	site := func(s string) string {
		if m := panicSite.FindStringSubmatch(s); m != nil {
			return m[1]
		}
		return "?"
	}
	for _, c := range an.Calls {
		if c.Rec != nil && c.Rec.Obs.Panic != "" {
			add(Violation{Code: "call-panic", Sig: "C04:call-panic:" + c.name() + "@" + site(c.Rec.Obs.Panic), Task: c.Task, Step: c.Step,
				Detail: fmt.Sprintf("%v(%s) panicked: %s", c.name(), argStr(&c.St.Args), c.Rec.Obs.Panic)})
		}
	}
	for _, name := range []string{"render-panic", "task-panic"} {
		for _, e := range an.Notes[name] {
			var msg string
			json.Unmarshal(e.Data, &msg)
			add(Violation{Code: name, Sig: "C04:" + name + ":" + site(msg), Task: e.Task, Step: e.Step,
				Detail: fmt.Sprintf("%s (%s): %s", name, opAt(an, e), msg)})
		}
	}
	for _, p := range engine.Tap(an.Res) {
		add(Violation{Code: "decoder-panic", Sig: "C04:decoder-panic:" + site(p), Detail: "a decoding entry point panicked on a datagram seen on the simulated network: " + p})
	}
}

// ---- C09 ------------------------------------------------------------------------------------

type arrival struct {
	at   time.Duration // relative to the request reaching the wire
	data []byte
	idx  int
}

// plannedArrivals: what the call's socket would be handed if it stayed open, in arrival order.
func (an *Analysis) plannedArrivals(c *Call) []arrival {
	var out []arrival
	peer := c.Route.Dst.String()
	for i, e := range c.St.Plan.Emits {
		switch e.Via {
		case "udp":
			if c.Route.Path == "tcp" {
				continue
			}
			if c.Route.Path == "udp" && e.From != peer {
				continue // a connected socket only hears its peer
			}
			if e.ToPort != 0 {
				continue
			}
			out = append(out, arrival{e.After, e.Data, i})
		case "tcp":
			if c.Route.Path == "tcp" {
				out = append(out, arrival{e.After, e.Data, i})
			}
		}
	}
	sort.SliceStable(out, func(i, j int) bool { return out[i].at < out[j].at })
	return out
}

// mustSucceed: the plan hands the call an acceptable, fully in-domain reply strictly before its
// deadline, and nothing that legitimately fails or pre-empts it arrives at or before that instant.
func (an *Analysis) mustSucceed(c *Call, T time.Duration) (bool, arrival) {
	S := c.St.Args.Serial
	// anything else the network does to the connection before the reply makes the outcome the network's
	for _, e := range c.St.Plan.Emits {
		switch e.Via {
		case "icmp", "tcp-rst", "tcp-fin":
			return false, arrival{}
		}
		if len(e.Split) > 0 {
			return false, arrival{} // a segmented TCP reply may legitimately fail the call (wrong length)
		}
	}
	arr := an.plannedArrivals(c)
	for i, a := range arr {
		passes := len(a.data) == 64 && model.Serial(a.data) == S
		if c.Route.Path == "broadcast" && !passes {
			continue
		}
		if !passes || !model.HeaderOK(c.St.Op, a.data) {
			return false, arrival{}
		}
		if a.at >= T {
			return false, arrival{}
		}
		// ties between arrivals at the same instant are the scheduler's: only judge when the order is unambiguous
		for j, o := range arr {
			if j != i && o.at == a.at {
				if c.Route.Path == "broadcast" && !(len(o.data) == 64 && model.Serial(o.data) == S) {
					continue // ignored whichever comes first
				}
				return false, arrival{}
			}
		}
		exp := model.Decode(c.St.Op, &c.St.Args, a.data, model.Ctx{})
		if exp.Fail != 0 {
			return false, arrival{}
		}
		// a reply that the kernel dropped because even a receive buffer of the default size was full is the
		// network's doing; one dropped from a buffer the library shrank is still the library's to answer for
		tag := fmt.Sprintf("@%d.%d.%d", c.Task, c.Step, a.idx)
		for _, l := range c.Lost {
			if strings.HasSuffix(l.Note, tag) && l.Err == "rcvbuf" {
				return false, arrival{}
			}
		}
		return true, a
	}
	return false, arrival{}
}

// foreignTraffic: the call's socket was handed something that is not part of its own plan
// (a late datagram meant for an earlier call on the same fixed port).
func (an *Analysis) foreignTraffic(c *Call) bool {
	for _, r := range c.Reads {
		if !ownDatagram(c, r) {
			return true
		}
	}
	return false
}

// foreignDeciding: the call's socket was handed a datagram that is not part of its own plan and that may
// legitimately decide the call: anything on a directed path (the first message decides), on the
// broadcast path only what passes as the addressed controller's.
func (an *Analysis) foreignDeciding(c *Call) bool {
	for _, r := range c.Reads {
		if ownDatagram(c, r) {
			continue
		}
		if c.Route.Path != "broadcast" {
			return true
		}
		if r.N == 64 && len(r.Data) == 64 && model.Serial(r.Data) == c.St.Args.Serial {
			return true
		}
	}
	return false
}

// ownDatagram: the delivered datagram was emitted by the call's own plan (the world tags every
// emission with class@task.step.index; the kernel logs the tag with the read).
func ownDatagram(c *Call, r vnet.Ev) bool {
	i := strings.IndexByte(r.Dst, '@')
	if i < 0 {
		return false
	}
	return strings.HasPrefix(r.Dst[i+1:], fmt.Sprintf("%d.%d.", c.Task, c.Step))
}

func checkC09(an *Analysis, add func(Violation)) {
	res := an.Res
	if res.Verdict != "" {
		add(Violation{Code: "hang", Sig: "C09:" + res.Verdict, Detail: fmt.Sprintf("the run did not finish (%s): a call never returned; last events:\n%s", res.Verdict, tailOf(res, 12))})
		return
	}
	for _, c := range an.Calls {
		if c.Begin == nil {
			continue
		}
		v := func(code, detail string) {
			add(Violation{Code: code, Sig: "C09:" + code + ":" + c.Route.Path, Task: c.Task, Step: c.Step,
				Detail: fmt.Sprintf("%v serial=%d path=%s timeout=%v bind=%q: %s", c.name(), c.St.Args.Serial, c.Route.Path, c.Client.Timeout, c.Client.Bind, detail)})
		}
		if c.End == nil {
			v("never-returned", "the call never returned")
			continue
		}
		if c.Reject != "" {
			continue
		}
		T := c.Client.Timeout
		turn := c.Turn()
		// bounded: the call holds its turn for at most one timeout
		if c.End.T > turn+T {
			v("overrun", fmt.Sprintf("returned %v after its turn began (waited %v for the port); the timeout is %v", c.End.T-turn, turn-c.Begin.T, T))
		}
		// discovery listens for the whole timeout
		if c.St.Op == model.GetDevices && len(c.Sends) == 1 && !c.injected() && c.Rec != nil && !c.Rec.Obs.Failed() && c.End.T < c.Sends[0].T+T {
			v("discovery-short", fmt.Sprintf("discovery returned %v after its request, before the timeout %v elapsed", c.End.T-c.Sends[0].T, T))
		}
		// never gives up early
		if c.St.Op != model.GetDevices && c.St.Op.HasReply() && len(c.Sends) == 1 && !c.injected() && c.Rec != nil {
			wire := c.Sends[0].T
			if c.Route.Path == "tcp" && len(c.Syns) > 0 {
				// the timeout covers connecting and the exchange
				wire = c.Syns[0].T
			}
			if ok, a := an.mustSucceed(c, T-(c.Sends[0].T-wire)); ok && c.Rec.Obs.Failed() && c.Rec.Obs.Panic == "" && !an.foreignDeciding(c) {
				v("gave-up-early", fmt.Sprintf("a valid reply was due %v after the request reached the wire (turn began %v after the call), before the timeout, but the call failed after %v: %s",
					a.at, turn-c.Begin.T, c.End.T-c.Sends[0].T, c.Rec.Obs.Err))
			}
		}
		// "never gives up early" starts with asking: a call with acceptable arguments that fails without having opened a
		// socket (and without a system call having failed) never gave its controller the chance to answer
		if c.Rec != nil && c.Rec.Obs.Failed() && c.Rec.Obs.Panic == "" && len(c.Socks) == 0 && len(c.KFails) == 0 && len(c.Sends) == 0 {
			v("gave-up-before-asking", fmt.Sprintf("the call failed without opening a socket or sending anything (%d tasks in the run): %s", len(an.Sc.Tasks), c.Rec.Obs.Err))
		}
		// "with an error if no acceptable reply arrived": a call that reports success was handed a 64-byte message
		// carrying the addressed controller's serial number (whether its content is acceptable is C03's business)
		if c.St.Op != model.GetDevices && c.St.Op.HasReply() && c.Rec != nil && !c.Rec.Obs.Failed() && c.Rec.Obs.Panic == "" {
			got := false
			var stream []byte
			for _, d := range c.Reads {
				if d.N == 64 && len(d.Data) == 64 && model.Serial(d.Data) == c.St.Args.Serial {
					got = true
				}
				stream = append(stream, d.Data...)
			}
			if c.Route.Path == "tcp" && len(stream) >= 64 && model.Serial(stream[:64]) == c.St.Args.Serial {
				got = true // reassembled from TCP segments
			}
			if !got {
				v("success-without-reply", fmt.Sprintf("the call reported success although no reply from the addressed controller arrived (%d messages delivered, %d receive errors)", len(c.Reads), len(c.ReadFails)))
			}
		}
		// every socket the call opened is closed when it returns
		closed := map[int]bool{}
		for _, e := range c.Closes {
			if e.Seq < c.End.Seq && e.Err == "" {
				closed[e.Sock] = true
			}
		}
		for _, k := range c.Socks {
			if !closed[k.Sock] {
				// a failed dial closes its own socket
				failedDial := false
				for _, f := range c.KFails {
					if f.Sock == k.Sock && f.Kind == "dial-fail" {
						failedDial = true
					}
				}
				if !failedDial {
					v("socket-open-at-return", fmt.Sprintf("socket %d (%s) was still open when the call returned", k.Sock, k.Note))
				}
			}
		}
		for _, e := range c.Notes["checkpoint"] {
			var cp map[string]int
			json.Unmarshal(e.Data, &cp)
			if cp["sockets"] != 0 {
				v("socket-leak", fmt.Sprintf("%d socket(s) open once the process was quiescent after the call", cp["sockets"]))
			}
			if cp["goroutines"] > 0 {
				v("goroutine-leak", fmt.Sprintf("%d goroutine(s) more than before the first call once the process was quiescent after the call", cp["goroutines"]))
			}
		}
	}
	// "a reply that arrives any time before the deadline is accepted" holds for discovery as well: what reached the
	// socket before the collection window closed is in the result (C11's oracle, its collecting rules only)
	checkC11(an, func(v Violation) {
		if v.Code == "stopped-collecting" || v.Code == "missing-entry" || v.Code == "window-short" {
			v.Sig = "C09:discovery:" + v.Code
			add(v)
		}
	})
	// a listener that could not start, or was stopped, leaves nothing behind either
	for _, e := range an.Notes["checkpoint-listen"] {
		var cp map[string]int
		json.Unmarshal(e.Data, &cp)
		if cp["sockets"] != 0 {
			add(Violation{Code: "socket-leak", Sig: "C09:socket-leak:listen", Task: e.Task, Step: e.Step,
				Detail: fmt.Sprintf("%d socket(s) open once the process was quiescent after Listen had returned", cp["sockets"])})
		}
		if cp["goroutines"] > 0 {
			add(Violation{Code: "goroutine-leak", Sig: "C09:goroutine-leak:listen", Task: e.Task, Step: e.Step,
				Detail: fmt.Sprintf("%d goroutine(s) of the library still alive once the process was quiescent after Listen had returned", cp["goroutines"])})
		}
	}
	leaks(an, "C09", add)
}

// leaks: what the end of the run shows.
func leaks(an *Analysis, prop string, add func(Violation)) {
	res := an.Res
	for _, e := range res.Trace {
		switch e.Kind {
		case "leaked-blocked":
			add(Violation{Code: "goroutine-blocked-at-end", Sig: prop + ":goroutine-blocked-at-end:" + siteOf(e.G), Task: e.Task, Step: e.Step,
				Detail: "after every call had returned a goroutine of the library was still blocked in the kernel: " + e.Note})
		case "leaked-socket":
			add(Violation{Code: "socket-open-at-end", Sig: prop + ":socket-open-at-end:" + e.Note, Task: e.Task, Step: e.Step,
				Detail: fmt.Sprintf("socket %d (%s, %s) was never closed", e.Sock, e.Note, e.Src)})
		}
	}
	if res.BubblePanic != "" {
		add(Violation{Code: "goroutines-remain", Sig: prop + ":goroutines-remain", Detail: "goroutines of the library were still blocked when the run ended: " + res.BubblePanic + "\n" + res.LeakStacks})
	} else if res.G1 > res.G0 {
		add(Violation{Code: "goroutines-remain", Sig: prop + ":goroutines-remain", Detail: fmt.Sprintf("%d goroutine(s) more than before the run\n%s", res.G1-res.G0, res.LeakStacks)})
	}
}

func siteOf(g string) string {
	// task00/uhppote.(*ut0311).Broadcast@UT0311.go:78#0 -> uhppote.(*ut0311).Broadcast
	if i := strings.Index(g, "/"); i >= 0 {
		g = g[i+1:]
	}
	if i := strings.Index(g, "@"); i >= 0 {
		g = g[:i]
	}
	return g
}

func tailOf(res *engine.Result, n int) string {
	tr := res.Trace
	if len(tr) > n {
		tr = tr[len(tr)-n:]
	}
	var sb strings.Builder
	for _, e := range tr {
		fmt.Fprintf(&sb, "  #%d t=%v %s g=%s sock=%d %s %s\n", e.Seq, e.T, e.Kind, e.G, e.Sock, e.Err, e.Note)
	}
	return sb.String()
}

// ---- C11 ------------------------------------------------------------------------------------

func checkC11(an *Analysis, add func(Violation)) {
	for _, c := range an.Calls {
		if c.St.Op == model.GetDevices && c.End != nil && c.Rec != nil && c.Rec.Obs.Failed() && len(an.Sc.Foreign) == 0 && !c.injected() && !hasListener(an.Sc) {
			for _, f := range c.KFails {
				if f.Err == "address already in use" {
					add(Violation{Code: "failed", Sig: "C11:failed", Task: c.Task, Step: c.Step,
						Detail: "GetDevices: discovery could not bind its port while another call of the same process was using it (calls sharing a bind port take turns): " + c.Rec.Obs.Err})
				}
			}
		}
		if c.St.Op != model.GetDevices || c.Begin == nil || c.End == nil || c.Rec == nil || len(c.Sends) != 1 || c.injected() {
			continue
		}
		v := func(code, detail string) {
			add(Violation{Code: code, Sig: "C11:" + code, Task: c.Task, Step: c.Step, Detail: "GetDevices: " + detail})
		}
		if c.Rec.Obs.Panic != "" {
			continue
		}
		if c.Rec.Obs.Failed() {
			v("failed", "discovery failed: "+c.Rec.Obs.Err)
			continue
		}
		if T := c.Client.Timeout; c.End.T > c.Sends[0].T+T {
			v("window-long", fmt.Sprintf("discovery went on collecting for %v after its request; the timeout is %v (replies \"received before the timeout\" are the result)", c.End.T-c.Sends[0].T, T))
			continue
		}
		if T := c.Client.Timeout; c.End.T < c.Sends[0].T+T {
			v("window-short", fmt.Sprintf("discovery stopped collecting %v after its request; replies may arrive for the whole timeout %v (it had waited %v for the bind port)", c.End.T-c.Sends[0].T, T, c.Turn()-c.Begin.T))
			continue
		}
		conf := gen.ClientConf(c.Client)
		port := model.BroadcastPort(conf)
		// the collector's wake-up: reads completed before it must be in the result, later ones may be
		wake := c.End.T
		for _, e := range an.Res.Trace {
			if e.Kind == "wake" && e.Task == c.Task && !strings.Contains(e.G, "/") && e.Seq > c.Begin.Seq && e.Seq < c.End.Seq {
				wake = e.T
				break
			}
		}
		// the collector keeps reading: between two kernel hooks no simulated time passes, so whatever reached the
		// socket strictly before the wake-up instant has been read by then - unless the reader has stopped
		early := 0
		for _, a := range c.Arrived {
			if a.T < wake {
				early++
			}
		}
		for _, l := range c.Lost {
			// dropped only because the library shrank its receive buffer: as good as arrived
			if l.T < wake && l.Err == "rcvbuf-shrunk" {
				early++
			}
		}
		if len(c.ReadFails) == 0 && len(c.Reads) < early {
			v("stopped-collecting", fmt.Sprintf("%d datagrams reached the discovery socket before the timeout but only %d were read: the collector stopped early (last read: %s)", early, len(c.Reads), lastRead(c)))
			continue
		}
		type exp struct {
			e        model.Expect
			optional bool
			data     []byte
		}
		// what reached the socket, in order (the queue is first-in first-out, so this is the order of the reads as
		// well): every well-formed reply among them is an entry - however the library went about reading it. (A 64-byte
		// reply that the library reads into a buffer with less than 64 bytes of room is lost by the library, not by
		// the network.)
		var exps []exp
		for _, d := range c.Arrived {
			if d.N != 64 || len(d.Data) != 64 {
				continue
			}
			if d.Data[0] != 0x17 || d.Data[1] != model.GetDevice.Code() {
				continue
			}
			serial := model.Serial(d.Data)
			e := model.Decode(model.GetDevice, &model.Args{}, d.Data, model.Ctx{Name: model.NameOf(conf, serial), Ports: []uint16{port}})
			if e.Hard {
				continue // undecodable: discarded
			}
			if an.Sc.TZ != "" {
				if loc := zones.Load(an.Sc.TZ); loc != nil {
					relaxZone(loc, model.GetDevice, &e, d.Data)
				}
			}
			x := exp{e: e, data: d.Data}
			// (a reply whose serial number field is 0 is a reply like any other here: the quantifier of C11 runs over
			// "all field values", and nothing in its statement sets 0 apart as C10's does for events)
			if e.Fail != 0 || d.T >= wake { // a datagram that arrives at the very instant of the wake-up is a tie
				x.optional = true
			}
			e.Fail = 0
			exps = append(exps, x)
		}
		got := c.Rec.List
		// match the result list against the expected sequence, skipping optional entries
		i, j := 0, 0
		for i < len(got) && j < len(exps) {
			if a, _ := exps[j].e.Check(model.Obs{F: got[i]}); a == "" {
				i++
				j++
				continue
			}
			if exps[j].optional {
				j++
				continue
			}
			a, det := exps[j].e.Check(model.Obs{F: got[i]})
			v("entry:"+a, fmt.Sprintf("entry %d of the result does not match the %d. well-formed reply received: %s\n  reply: %s\n  entry: %v", i, j, det, hexs(exps[j].data), got[i]))
			i, j = -1, -1
			break
		}
		if i < 0 {
			continue
		}
		if i < len(got) {
			v("extra-entry", fmt.Sprintf("the result has %d entries; entry %d (%v) corresponds to no well-formed reply received (%d candidates)", len(got), i, got[i], len(exps)))
			continue
		}
		for ; j < len(exps); j++ {
			if !exps[j].optional {
				v("missing-entry", fmt.Sprintf("a well-formed reply received before the timeout is not in the result (%d entries)\n  reply: %s", len(got), hexs(exps[j].data)))
				break
			}
		}
	}
}

// hasListener: some client of the scenario runs its event listener (which may sit on the very port a client binds
// its requests to - then a request cannot be sent while it runs, and that is the configuration's doing).
func hasListener(sc *engine.Scenario) bool {
	for _, t := range sc.Tasks {
		for _, st := range t.Steps {
			if st.Kind == "listen" {
				return true
			}
		}
	}
	return false
}

func lastRead(c *Call) string {
	if len(c.Reads) == 0 {
		return "none"
	}
	d := c.Reads[len(c.Reads)-1]
	return fmt.Sprintf("%d bytes from %s at %v", d.N, d.Src, d.T)
}

// ---- C10 ------------------------------------------------------------------------------------

type cb struct {
	ev   vnet.Ev
	kind string
	obs  map[string]string
	err  string
}

func checkC10(an *Analysis, add func(Violation)) {
	var relax func(e *model.Expect, data []byte)
	if an.Sc.TZ != "" {
		if loc := zones.Load(an.Sc.TZ); loc != nil {
			relax = func(e *model.Expect, data []byte) { relaxZone(loc, model.GetStatus, e, data) }
		}
	}
	listenerCheck(an, "C10", relax, add)
	leaks(an, "C10", add)
	if an.Res.Races > 0 {
		// between two kernel hooks the simulator cannot interleave the receive loop and the dispatcher;
		// the race detector (running under the scheduler) covers that gap: a race on the way from the
		// receive buffer to the callback means a delivered status is not reliably the datagram's decoding
		add(Violation{Code: "race", Sig: "C10:race:" + an.Res.RaceSig, Detail: "the race detector reported a data race on the listener's path from datagram to callback:\n" + an.Res.RaceLog})
	}
}

// listenerCheck compares the callbacks of every listener with the reference reading of what its
// socket was handed; relax (optional) adjusts the expectation for one datagram.
func listenerCheck(an *Analysis, prop string, relax func(e *model.Expect, data []byte), add func(Violation)) {
	sc, res := an.Sc, an.Res
	for ti := range sc.Tasks {
		for si := range sc.Tasks[ti].Steps {
			st := &sc.Tasks[ti].Steps[si]
			if st.Kind != "listen" {
				continue
			}
			id := [2]int{ti, si}
			v := func(code, detail string) {
				add(Violation{Code: code, Sig: prop + ":" + code, Task: ti, Step: si, Detail: fmt.Sprintf("listener (task %d step %d, %s): %s", ti, si, sc.Clients[st.Client].Listen, detail)})
			}
			var begin, end, stop *vnet.Ev
			var cbs []cb
			var delivered, arrived []vnet.Ev
			var bindFail *vnet.Ev
			sock := 0
			for i := range res.Trace {
				e := res.Trace[i]
				switch e.Kind {
				case "point":
					switch e.Note {
					case "listen-begin":
						if e.Task == ti && e.Step == si {
							begin = &res.Trace[i]
						}
					case "listen-end":
						if e.Task == ti && e.Step == si && begin != nil && end == nil {
							end = &res.Trace[i]
						}
					case "stop":
						if (e.Task == -1-ti || (e.Task == ti && e.Step == si)) && begin != nil && stop == nil && end == nil && e.Seq > begin.Seq {
							stop = &res.Trace[i]
						}
					case "on-connected", "on-event", "on-error", "status-changed":
						var d struct {
							L   [2]int            `json:"l"`
							Obs map[string]string `json:"obs"`
							Err string            `json:"err"`
						}
						json.Unmarshal(e.Data, &d)
						if d.L == id {
							cbs = append(cbs, cb{ev: e, kind: e.Note, obs: d.Obs, err: d.Err})
						}
					}
				case "sock-open":
					if e.Task == ti && e.Step == si && sock == 0 {
						sock = e.Sock
					}
				case "bind-fail":
					if e.Task == ti && e.Step == si && bindFail == nil {
						bindFail = &res.Trace[i]
					}
				case "read":
					if sock != 0 && e.Sock == sock {
						delivered = append(delivered, e)
					}
				case "udp-arrive":
					if sock != 0 && e.Sock == sock {
						arrived = append(arrived, e)
					}
				}
			}
			if begin == nil {
				continue
			}
			if end == nil {
				v("never-returned", "Listen never returned")
				continue
			}
			var endMsg string
			json.Unmarshal(end.Data, &endMsg)

			nconn := 0
			for _, c := range cbs {
				if c.kind == "on-connected" {
					nconn++
				}
				if c.kind == "status-changed" {
					v("status-changed", "a delivered status changed afterwards: "+string(c.ev.Data))
				}
			}
			if bindFail != nil || sock == 0 {
				// could not bind: an error, no callback
				if endMsg == "" {
					v("bind-failure-hidden", "the listen address could not be bound but Listen returned nil")
				}
				if len(cbs) > 0 {
					v("callback-without-socket", fmt.Sprintf("%d callback(s) although the listen address was never bound", len(cbs)))
				}
				if bindFail != nil && bindFail.Note != "injected" && !foreignHolds(sc, sc.Clients[st.Client].Listen) && !heldByAnother(res, bindFail) {
					v("rebind-failed", fmt.Sprintf("the listen address could not be bound (%s) although the previous listener had returned", bindFail.Err))
				}
				continue
			}
			if endMsg != "" {
				v("returned-error", "Listen returned an error after a clean stop: "+endMsg)
			}
			if nconn != 1 {
				v("on-connected", fmt.Sprintf("OnConnected fired %d times", nconn))
			}
			// "stops when signalled": with no callback of the application running, the listener has nothing to wait for -
			// a second of simulated time is far beyond any slack (the unchanged listener returns at the very instant)
			if stop != nil && len(st.Holds) == 0 && end.T > stop.T+time.Second {
				v("slow-stop", fmt.Sprintf("Listen returned %v after the stop signal", end.T-stop.T))
			}
			// while listening, whatever reaches the socket is received: unless a callback holds the dispatcher up,
			// every datagram that arrived strictly before the stop signal has been read
			if stop != nil && len(st.Holds) == 0 {
				early := 0
				for _, a := range arrived {
					if a.T < stop.T {
						early++
					}
				}
				if len(delivered) < early {
					v("stopped-receiving", fmt.Sprintf("%d datagrams reached the listen socket before the stop signal but only %d were received", early, len(delivered)))
				}
			}

			// expected callbacks from the delivery log
			type want struct {
				valid, soft bool
				exp         model.Expect
				d           vnet.Ev
			}
			var wants []want
			for _, d := range delivered {
				full := d.Note == fmt.Sprint(d.N)
				data := d.Data
				if !full {
					data = append(append([]byte{}, d.Data...), 0) // truncated by the receive buffer: certainly not 64 bytes
				}
				valid, soft := model.EventOK(data)
				w := want{valid: valid, soft: soft, d: d}
				if valid || soft {
					w.exp = model.Decode(model.GetStatus, &model.Args{}, data, model.Ctx{})
					w.exp.Fail = 0
					if relax != nil {
						relax(&w.exp, data)
					}
				}
				wants = append(wants, w)
			}
			var events, errors []cb
			for _, c := range cbs {
				switch c.kind {
				case "on-event":
					events = append(events, c)
				case "on-error":
					errors = append(errors, c)
				}
			}
			// events: in order, each the decoding of its datagram
			ei, xi := 0, 0
			ok := true
			for _, w := range wants {
				switch {
				case w.valid:
					if ei >= len(events) {
						v("event-missing", fmt.Sprintf("a valid event was received but never delivered to OnEvent (%d delivered of %d datagrams)\n  datagram: %s", len(events), len(wants), hexs(w.d.Data)))
						ok = false
					} else if a, det := w.exp.Check(model.Obs{F: events[ei].obs}); a != "" {
						v("event:"+a, fmt.Sprintf("OnEvent #%d does not carry the decoding of the %d. valid event received (dropped, duplicated, reordered or misdecoded): %s\n  datagram: %s\n  status: %v", ei, ei, det, hexs(w.d.Data), events[ei].obs))
						ok = false
					} else {
						ei++
					}
				case w.soft:
					// either an event (with the out-of-domain field as 'no value') or an error
					if ei < len(events) {
						if a, _ := w.exp.Check(model.Obs{F: events[ei].obs}); a == "" {
							ei++
							continue
						}
					}
					if xi < len(errors) {
						xi++
					} else {
						v("callback-missing", fmt.Sprintf("a received datagram produced neither an event nor an error\n  datagram: %s", hexs(w.d.Data)))
						ok = false
					}
				default:
					if xi < len(errors) {
						xi++
					} else {
						v("error-missing", fmt.Sprintf("a malformed datagram (%d bytes) produced no OnError (%d errors for %d datagrams)\n  datagram: %s", w.d.N, len(errors), len(wants), hexs(w.d.Data[:min(len(w.d.Data), 64)])))
						ok = false
					}
				}
				if !ok {
					break
				}
			}
			if ok && ei < len(events) {
				v("event-extra", fmt.Sprintf("OnEvent fired %d times for %d valid events received; extra: %v", len(events), ei, events[ei].obs))
			}
			if ok && xi < len(errors) {
				v("error-extra", fmt.Sprintf("OnError fired %d times for %d other datagrams received; extra: %s", len(errors), xi, errors[xi].err))
			}
		}
	}
}

// heldByAnother: when the bind failed, another socket of this process (another listener) held that port.
func heldByAnother(res *engine.Result, fail *vnet.Ev) bool {
	ap, err := netip.ParseAddrPort(fail.Src)
	if err != nil {
		return false
	}
	open := map[int][2]int{}
	returned := map[[2]int]bool{} // listeners that have returned: what they still hold is theirs to have released
	for _, e := range res.Trace {
		if e.Seq >= fail.Seq {
			break
		}
		switch e.Kind {
		case "sock-open":
			if p, err := netip.ParseAddrPort(e.Src); err == nil && p.Port() == ap.Port() && strings.HasPrefix(e.Note, "udp") {
				open[e.Sock] = [2]int{e.Task, e.Step}
			}
		case "sock-close":
			delete(open, e.Sock)
		case "point":
			if e.Note == "listen-end" {
				returned[[2]int{e.Task, e.Step}] = true
			}
		}
	}
	for _, owner := range open {
		if !returned[owner] {
			return true
		}
	}
	return false
}

func foreignHolds(sc *engine.Scenario, listen string) bool {
	ap, err := netip.ParseAddrPort(listen)
	if err != nil {
		return false
	}
	for _, f := range sc.Foreign {
		if f.Proto == "udp" && f.Port == ap.Port() {
			return true
		}
	}
	return false
}

// ---- C17 ------------------------------------------------------------------------------------

func checkC17(an *Analysis, add func(Violation)) {
	// statuses handed to the event callback are results too: each carries the content of its own datagram, whatever
	// the listener's receive buffer holds by the time the callback looks at it
	var relax func(e *model.Expect, data []byte)
	if an.Sc.TZ != "" {
		if loc := zones.Load(an.Sc.TZ); loc != nil {
			relax = func(e *model.Expect, data []byte) { relaxZone(loc, model.GetStatus, e, data) }
		}
	}
	listenerCheck(an, "C17", relax, func(v Violation) {
		if strings.HasPrefix(v.Code, "event:") || v.Code == "status-changed" {
			add(v)
		}
	})
	for _, name := range []string{"arg-mutated", "result-changed", "clone-aliased", "config-changed", "status-changed"} {
		for _, e := range an.Notes[name] {
			add(Violation{Code: name, Sig: "C17:" + name + ":" + opAt(an, e), Task: e.Task, Step: e.Step, Detail: name + ": " + trunc(string(e.Data), 1500)})
		}
	}
	// routing still follows the configuration as constructed
	mutated := len(an.Notes["mutate-config"])+len(an.Notes["mutate-devlist"]) > 0
	if !mutated {
		return
	}
	var first int
	for _, n := range []string{"mutate-config", "mutate-devlist"} {
		for _, e := range an.Notes[n] {
			if first == 0 || e.Seq < first {
				first = e.Seq
			}
		}
	}
	for _, c := range an.Calls {
		if c.Reject != "" || c.Begin == nil || c.End == nil || c.Begin.Seq < first || len(c.Reach) == 0 {
			continue
		}
		o := c.Reach[0]
		proto, _, _ := strings.Cut(o.Note, ":")
		wantProto := "udp"
		if c.Route.Path == "tcp" {
			wantProto = "tcp"
		}
		kind := ""
		if len(c.Socks) > 0 {
			kind = c.Socks[0].Note
		}
		wantKind := map[string]string{"broadcast": "udp", "udp": "udp-connected", "tcp": "tcp"}[c.Route.Path]
		if proto != wantProto || o.Dst != c.Route.Dst.String() || (kind != "" && kind != wantKind) {
			add(Violation{Code: "routing-changed", Sig: "C17:routing-changed", Task: c.Task, Step: c.Step,
				Detail: fmt.Sprintf("%v serial=%d went to %s over %s (%s) after the caller changed its own copy of the configuration; the client was constructed to send to %v over %s",
					c.name(), c.St.Args.Serial, o.Dst, proto, kind, c.Route.Dst, c.Route.Path)})
		}
	}
}

func opAt(an *Analysis, e vnet.Ev) string {
	if c := an.byKey[[2]int{e.Task, e.Step}]; c != nil {
		return c.name()
	}
	if e.Task >= 0 && e.Task < len(an.Sc.Tasks) && e.Step >= 0 && e.Step < len(an.Sc.Tasks[e.Task].Steps) {
		return an.Sc.Tasks[e.Task].Steps[e.Step].Kind
	}
	return "?"
}

func trunc(s string, n int) string {
	if len(s) > n {
		return s[:n] + "..."
	}
	return s
}

var _ = reflect.DeepEqual

// ---- C13 ------------------------------------------------------------------------------------

func bcdv(b byte) int { return int(b>>4)*10 + int(b&0x0f) }

// relaxZone drops the expectation for date-times whose civil time does not exist in the process zone.
func relaxZone(loc *time.Location, op model.Op, e *model.Expect, d []byte) {
	for _, f := range model.ReplyFields(op) {
		if f.Kind == model.KDate {
			// a calendar day the zone skipped entirely is exempt
			b := d[f.Off : f.Off+4]
			if y, mo, dd := bcdv(b[0])*100+bcdv(b[1]), bcdv(b[2]), bcdv(b[3]); model.ValidDate(y, mo, dd) && zones.NoInstant(loc, y, mo, dd) {
				if _, ok := e.F[f.Name]; ok {
					e.F[f.Name] = nil
				}
			}
		}
		if f.Kind != model.KDateTime {
			continue
		}
		b := d[f.Off : f.Off+7]
		y, mo, dd, h, mi, s := bcdv(b[0])*100+bcdv(b[1]), bcdv(b[2]), bcdv(b[3]), bcdv(b[4]), bcdv(b[5]), bcdv(b[6])
		if model.ValidDate(y, mo, dd) && !zones.CivilExists(loc, y, mo, dd, h, mi, s) {
			if _, ok := e.F[f.Name]; ok {
				e.F[f.Name] = nil
			}
		}
	}
	if op == model.GetStatus {
		db, tb := d[51:54], d[37:40]
		yy, mo, dd, h, mi, s := bcdv(db[0]), bcdv(db[1]), bcdv(db[2]), bcdv(tb[0]), bcdv(tb[1]), bcdv(tb[2])
		for _, y := range []int{1900 + yy, 2000 + yy} {
			if model.ValidDate(y, mo, dd) && !zones.CivilExists(loc, y, mo, dd, h, mi, s) {
				e.F["sysdatetime"] = nil
			}
		}
	}
}

func checkC13(an *Analysis, add func(Violation)) {
	loc := time.UTC
	if an.Sc.TZ != "" {
		if l := zones.Load(an.Sc.TZ); l != nil {
			loc = l
		}
	}
	zone := an.Sc.TZ
	for _, e := range an.Notes["date-shift"] {
		var msg string
		json.Unmarshal(e.Data, &msg)
		how, _, _ := strings.Cut(msg, "(")
		add(Violation{Code: "constructed-date", Sig: "C13:constructed-date:" + how, Task: e.Task, Step: e.Step, Detail: "a date built from a valid year/month/day does not report them: " + msg})
	}
	for _, c := range an.Calls {
		if c.Reject != "" || c.Begin == nil || c.End == nil || c.Rec == nil {
			continue
		}
		// dates on the wire
		if len(c.Sends) == 1 && !an.skippedDayArg(c) {
			want := model.Encode(c.St.Op, &c.St.Args)
			if got := c.Sends[0].Data; string(got) != string(want) {
				at := firstDiff(got, want)
				add(Violation{Code: "wire", Sig: fmt.Sprintf("C13:wire:%v", c.name()), Task: c.Task, Step: c.Step,
					Detail: fmt.Sprintf("zone %s: %v args=%s: request differs from the protocol encoding at byte %d\n  wire: %s\n  want: %s", zone, c.name(), argStr(&c.St.Args), at, hexs(got), hexs(want))})
			}
		}
		// dates and date-times in results
		if !c.judged() || c.Rec.Obs.Panic != "" {
			continue
		}
		d, exp := an.decide(c)
		if d == nil || exp.Fail == 2 {
			continue
		}
		relaxZone(loc, c.St.Op, &exp, d.Data)
		if a, det := exp.Check(c.Rec.Obs); a != "" {
			add(Violation{Code: "result", Sig: "C13:result:" + c.name() + ":" + a, Task: c.Task, Step: c.Step,
				Detail: fmt.Sprintf("zone %s: %v: %s\n  reply: %s\n  observed: %+v", zone, c.name(), det, hexs(d.Data), c.Rec.Obs)})
		}
	}
	// a card read and written back encodes to the bytes it was read from
	for ti := range an.Sc.Tasks {
		var lastReply []byte
		for si := range an.Sc.Tasks[ti].Steps {
			st := &an.Sc.Tasks[ti].Steps[si]
			if c := an.byKey[[2]int{ti, si}]; c != nil && (st.Op == model.GetCardByIndex || st.Op == model.GetCardByID) && c.Rec != nil && !c.Rec.Obs.Failed() && !c.Rec.Obs.Nil {
				if d, exp := an.decide(c); d != nil && exp.Fail == 0 {
					lastReply = d.Data
				}
			}
			if st.Kind != "putback" || lastReply == nil {
				continue
			}
			for _, e := range an.Res.Trace {
				if (e.Kind == "udp-send" || e.Kind == "tcp-send") && an.Sock[e.Sock] == [2]int{ti, si} {
					if len(e.Data) == 64 && string(e.Data[8:27]) != string(lastReply[8:27]) {
						add(Violation{Code: "putback", Sig: "C13:putback", Task: ti, Step: si,
							Detail: fmt.Sprintf("zone %s: a card read from the controller and written back unchanged is encoded differently\n  read:    %s\n  written: %s", zone, hexs(lastReply[8:27]), hexs(e.Data[8:27]))})
					}
					break
				}
			}
		}
	}
	listenerCheck(an, "C13", func(e *model.Expect, data []byte) { relaxZone(loc, model.GetStatus, e, data) }, add)
}
