// Package oracle judges a finished run: each property's check reads the recorded trace
// (wire log, delivery log, call records, socket and goroutine accounting) and nothing else.
package oracle

import (
	"bytes"
	"encoding/json"
	"fmt"
	"net/netip"
	"sort"
	"strings"
	"time"
	"verif/sim/zones"

	"verif/sim/engine"
	"verif/sim/gen"
	"verif/sim/model"
	"verif/sim/vnet"
)

// Violation of a property in one run.
type Violation struct {
	Prop   string `json:"prop"`
	Code   string `json:"code"`   // oracle code
	Sig    string `json:"sig"`    // identifies the defect rather than the run (known-findings key)
	Detail string `json:"detail"` // human readable
	Task   int    `json:"task"`
	Step   int    `json:"step"`
}

// Call is everything the trace says about one API call.
type Call struct {
	Task, Step int
	St         *engine.Step
	Client     *engine.ClientCfg
	Begin, End *vnet.Ev
	Rec        *engine.CallRec
	Socks      []vnet.Ev // sock-open
	Sends      []vnet.Ev // udp-send, tcp-send
	Syns       []vnet.Ev
	Reach      []vnet.Ev
	Reads      []vnet.Ev // delivered to the library
	Arrived    []vnet.Ev // reached the queue of one of the call's sockets
	Lost       []vnet.Ev // dropped by the kernel at one of the call's sockets: receive buffer full (Err says whose doing)
	ReadFails  []vnet.Ev
	KFails     []vnet.Ev // bind-fail, dial-fail, write-fail, set-deadline-fail
	Closes     []vnet.Ev
	Locks      []vnet.Ev
	Notes      map[string][]vnet.Ev
	Route      model.Route
	Reject     string
}

type Analysis struct {
	Sc    *engine.Scenario
	Res   *engine.Result
	Calls []*Call
	byKey map[[2]int]*Call
	Sock  map[int][2]int // socket -> (task, step)
	Notes map[string][]vnet.Ev
}

// Analyse indexes the trace.
func Analyse(sc *engine.Scenario, res *engine.Result) *Analysis {
	an := &Analysis{Sc: sc, Res: res, byKey: map[[2]int]*Call{}, Sock: map[int][2]int{}, Notes: map[string][]vnet.Ev{}}
	for ti := range sc.Tasks {
		for si := range sc.Tasks[ti].Steps {
			st := &sc.Tasks[ti].Steps[si]
			if st.Kind != "call" {
				continue
			}
			c := &Call{Task: ti, Step: si, St: st, Client: &sc.Clients[st.Client], Notes: map[string][]vnet.Ev{}}
			c.Route = model.RouteOf(gen.ClientConf(c.Client), st.Op, st.Args.Serial)
			c.Reject = model.Validate(st.Op, &st.Args)
			an.Calls = append(an.Calls, c)
			an.byKey[[2]int{ti, si}] = c
		}
	}
	for i := range res.Trace {
		e := &res.Trace[i]
		if e.Kind == "sock-open" {
			an.Sock[e.Sock] = [2]int{e.Task, e.Step}
		}
	}
	for i := range res.Trace {
		e := res.Trace[i]
		key := [2]int{e.Task, e.Step}
		if e.Sock != 0 {
			if k, ok := an.Sock[e.Sock]; ok {
				key = k
			}
		}
		c := an.byKey[key]
		if e.Kind == "point" {
			an.Notes[e.Note] = append(an.Notes[e.Note], e)
		}
		if c == nil {
			continue
		}
		switch e.Kind {
		case "point":
			switch e.Note {
			case "call-begin":
				ev := e
				c.Begin = &ev
			case "call-end":
				ev := e
				c.End = &ev
				var rec engine.CallRec
				if json.Unmarshal(e.Data, &rec) == nil {
					c.Rec = &rec
				}
			default:
				c.Notes[e.Note] = append(c.Notes[e.Note], e)
			}
		case "sock-open":
			c.Socks = append(c.Socks, e)
		case "udp-send", "tcp-send":
			c.Sends = append(c.Sends, e)
		case "tcp-syn":
			c.Syns = append(c.Syns, e)
		case "reach":
			c.Reach = append(c.Reach, e)
		case "read":
			c.Reads = append(c.Reads, e)
		case "udp-arrive", "tcp-arrive":
			c.Arrived = append(c.Arrived, e)
		case "udp-lost":
			if e.Sock != 0 {
				c.Lost = append(c.Lost, e)
			}
		case "read-fail":
			c.ReadFails = append(c.ReadFails, e)
		case "bind-fail", "dial-fail", "write-fail", "set-deadline-fail":
			c.KFails = append(c.KFails, e)
		case "sock-close":
			c.Closes = append(c.Closes, e)
		case "lock":
			// the call's own goroutine only (not a reader goroutine of an earlier call lingering in this task)
			if !strings.Contains(e.G, "/") {
				c.Locks = append(c.Locks, e)
			}
		}
	}
	return an
}

func (c *Call) name() string { return c.St.Op.String() }

// Turn is the instant the call's turn began: when it obtained the shared fixed bind port (the
// lock taken before its first socket), or its start when it did not have to queue.
func (c *Call) Turn() time.Duration {
	first := -1
	for _, evs := range [][]vnet.Ev{c.Socks, c.KFails} {
		for _, e := range evs {
			if first < 0 || e.Seq < first {
				first = e.Seq
			}
		}
	}
	for _, l := range c.Locks {
		if first < 0 || l.Seq < first {
			return l.T
		}
	}
	return c.Begin.T
}

// injected: a system call failed because the scenario said so.
func (c *Call) injected() bool {
	for _, e := range c.KFails {
		if e.Note == "injected" {
			return true
		}
	}
	return false
}

func hexs(b []byte) string {
	var sb strings.Builder
	for i, x := range b {
		if i > 0 && i%16 == 0 {
			sb.WriteByte(' ')
		}
		fmt.Fprintf(&sb, "%02x", x)
	}
	return sb.String()
}

func firstDiff(a, b []byte) int {
	for i := 0; i < len(a) && i < len(b); i++ {
		if a[i] != b[i] {
			return i
		}
	}
	if len(a) != len(b) {
		if len(a) < len(b) {
			return len(a)
		}
		return len(b)
	}
	return -1
}

// Check runs the oracle of one property over the run.
func Check(prop string, sc *engine.Scenario, res *engine.Result) []Violation {
	an := Analyse(sc, res)
	var vs []Violation
	add := func(v Violation) {
		v.Prop = prop
		vs = append(vs, v)
	}
	// a run that did not finish is everybody's problem only in C09; elsewhere it is reported as such too,
	// because no other oracle can be trusted on a truncated trace
	if res.Verdict != "" && prop != "C09" {
		add(Violation{Code: "run-" + res.Verdict, Sig: "run-" + res.Verdict, Detail: "the simulated run did not finish (" + res.Verdict + ")"})
		return vs
	}
	switch prop {
	case "C01":
		checkC01(an, add)
	case "C02":
		checkC02(an, add)
	case "C03":
		checkC03(an, add)
	case "C06":
		checkC06(an, add)
	case "C07":
		checkC07(an, add)
	default:
		if f, ok := more[prop]; ok {
			f(an, add)
		} else {
			panic("oracle: no check for " + prop)
		}
	}
	return vs
}

var more = map[string]func(*Analysis, func(Violation)){}

// ---- C01 ------------------------------------------------------------------------------------

// skippedDayArg: the run has a process zone and one of the call's date arguments is a calendar day that zone skipped
// entirely (2011-12-30 in Pacific/Apia, 1993-08-21 in Pacific/Kwajalein): no instant of the process's clock lies on
// it, C13 exempts it, and no check compares its digits on the wire.
func (an *Analysis) skippedDayArg(c *Call) bool {
	if an.Sc.TZ == "" {
		return false
	}
	loc := zones.Load(an.Sc.TZ)
	if loc == nil {
		return false
	}
	var ds []model.Date
	a := &c.St.Args
	if a.Card != nil {
		ds = append(ds, a.Card.From, a.Card.To)
	}
	if a.Profile != nil {
		ds = append(ds, a.Profile.From, a.Profile.To)
	}
	if a.Task != nil {
		ds = append(ds, a.Task.From, a.Task.To)
	}
	for _, d := range ds {
		if !d.Zero && model.ValidDate(d.Y, d.M, d.D) && zones.NoInstant(loc, d.Y, d.M, d.D) {
			return true
		}
	}
	return false
}

func checkC01(an *Analysis, add func(Violation)) {
	for _, c := range an.Calls {
		if c.Reject != "" || c.Begin == nil || c.End == nil {
			continue
		}
		if an.skippedDayArg(c) {
			continue
		}
		want := model.Encode(c.St.Op, &c.St.Args)
		switch {
		case len(c.Sends) == 0:
			if len(c.KFails) > 0 {
				continue // the kernel refused something before the request could leave: the network's business
			}
			add(Violation{Code: "no-request", Sig: "C01:no-request:" + c.name(), Task: c.Task, Step: c.Step,
				Detail: fmt.Sprintf("%v: accepted call put no request on the wire (result: %+v)", c.name(), c.Rec)})
		case len(c.Sends) > 1:
			add(Violation{Code: "extra-request", Sig: "C01:extra-request:" + c.name(), Task: c.Task, Step: c.Step,
				Detail: fmt.Sprintf("%v: %d requests on the wire for one call", c.name(), len(c.Sends))})
		default:
			got := c.Sends[0].Data
			if !bytes.Equal(got, want) {
				at := firstDiff(got, want)
				add(Violation{Code: "request-bytes", Sig: fmt.Sprintf("C01:bytes:%v@%d", c.name(), at), Task: c.Task, Step: c.Step,
					Detail: fmt.Sprintf("%v args=%s: request differs from the protocol encoding at byte %d (len %d)\n  wire: %s\n  want: %s", c.name(), argStr(&c.St.Args), at, len(got), hexs(got), hexs(want))})
			}
		}
	}
}

func argStr(a *model.Args) string {
	b, _ := json.Marshal(a)
	return string(b)
}

// ---- C07 ------------------------------------------------------------------------------------

func checkC07(an *Analysis, add func(Violation)) {
	for _, c := range an.Calls {
		if c.Begin == nil || c.End == nil || c.Rec == nil {
			continue
		}
		touched := len(c.Socks) + len(c.KFails) + len(c.Sends) + len(c.Syns)
		if c.Reject != "" {
			if touched > 0 {
				add(Violation{Code: "invalid-sent", Sig: "C07:invalid-reached-network:" + c.name() + ":" + c.Reject, Task: c.Task, Step: c.Step,
					Detail: fmt.Sprintf("%v args=%s must be rejected (%s) but touched the network: %d socket(s), %d request(s)", c.name(), argStr(&c.St.Args), c.Reject, len(c.Socks), len(c.Sends))})
			} else if !c.Rec.Obs.Failed() {
				add(Violation{Code: "invalid-accepted", Sig: "C07:invalid-not-an-error:" + c.name() + ":" + c.Reject, Task: c.Task, Step: c.Step,
					Detail: fmt.Sprintf("%v args=%s must be rejected (%s) but returned no error", c.name(), argStr(&c.St.Args), c.Reject)})
			}
			continue
		}
		if touched == 0 {
			add(Violation{Code: "valid-rejected", Sig: "C07:valid-rejected:" + c.name(), Task: c.Task, Step: c.Step,
				Detail: fmt.Sprintf("%v args=%s is acceptable but the call never touched the network (err=%q)", c.name(), argStr(&c.St.Args), c.Rec.Obs.Err)})
			continue
		}
		if c.St.Op == model.SetDoorPasscodes && len(c.Sends) == 1 {
			want := model.Encode(c.St.Op, &c.St.Args)
			if !bytes.Equal(c.Sends[0].Data, want) {
				at := firstDiff(c.Sends[0].Data, want)
				add(Violation{Code: "passcodes", Sig: fmt.Sprintf("C07:passcodes@%d", at), Task: c.Task, Step: c.Step,
					Detail: fmt.Sprintf("SetDoorPasscodes args=%s: request differs at byte %d\n  wire: %s\n  want: %s", argStr(&c.St.Args), at, hexs(c.Sends[0].Data), hexs(want))})
			}
		}
	}
}

// ---- C06 ------------------------------------------------------------------------------------

func (an *Analysis) expectedReach(proto string, dst netip.AddrPort) string {
	var names []string
	bc := dst.Addr() == netip.AddrFrom4([4]byte{255, 255, 255, 255})
	for _, b := range an.Sc.Bcast {
		if b == dst.Addr().String() {
			bc = true
		}
	}
	for _, e := range an.Sc.Endpoints {
		if e.Proto != proto || e.Port != dst.Port() {
			continue
		}
		if e.IP == dst.Addr().String() || (proto == "udp" && bc) {
			names = append(names, e.Name)
		}
	}
	sort.Strings(names)
	return proto + ":" + strings.Join(names, ",")
}

func checkC06(an *Analysis, add func(Violation)) {
	for _, c := range an.Calls {
		if c.Reject != "" || c.Begin == nil || c.End == nil {
			continue
		}
		v := func(code, detail string) {
			add(Violation{Code: code, Sig: "C06:" + code + ":" + c.Route.Path, Task: c.Task, Step: c.Step,
				Detail: fmt.Sprintf("%v serial=%d client=%+v expected route %s -> %v: %s", c.name(), c.St.Args.Serial, *c.Client, c.Route.Path, c.Route.Dst, detail)})
		}
		wantProto := "udp"
		if c.Route.Path == "tcp" {
			wantProto = "tcp"
		}
		// connection attempts and datagrams that left, whatever came of them
		var outs []vnet.Ev
		for _, e := range c.Reach {
			outs = append(outs, e)
		}
		if len(outs) == 0 {
			if len(c.KFails) > 0 {
				continue
			}
			v("nothing-sent", "no packet left the client")
			continue
		}
		if len(outs) > 1 {
			v("more-than-one", fmt.Sprintf("%d packets/connection attempts left for one call", len(outs)))
			continue
		}
		o := outs[0]
		gotProto, _, _ := strings.Cut(o.Note, ":")
		if gotProto != wantProto {
			v("transport", fmt.Sprintf("went over %s", gotProto))
			continue
		}
		if o.Dst != c.Route.Dst.String() {
			v("destination", fmt.Sprintf("went to %s", o.Dst))
			continue
		}
		if want := an.expectedReach(wantProto, c.Route.Dst); o.Note != want {
			v("reach", fmt.Sprintf("reached %q, expected %q", o.Note, want))
			continue
		}
		if len(c.Sends) > 1 {
			v("more-than-one", fmt.Sprintf("%d requests written for one call", len(c.Sends)))
			continue
		}
		// socket kind and source address
		if len(c.Socks) != 1 {
			v("sockets", fmt.Sprintf("%d sockets opened for one call", len(c.Socks)))
			continue
		}
		k := c.Socks[0]
		wantKind := map[string]string{"broadcast": "udp", "udp": "udp-connected", "tcp": "tcp"}[c.Route.Path]
		if k.Note != wantKind {
			v("socket-kind", fmt.Sprintf("used a %s socket, expected %s", k.Note, wantKind))
			continue
		}
		src := k.Src
		if len(c.Sends) == 1 {
			src = c.Sends[0].Src
		}
		sap, err := netip.ParseAddrPort(src)
		if err != nil {
			continue
		}
		bind, _ := netip.ParseAddrPort(c.Client.Bind)
		wantIP := an.Sc.HostIP
		if bind.IsValid() && !bind.Addr().IsUnspecified() {
			wantIP = bind.Addr().String()
		}
		if sap.Addr().String() != wantIP && !sap.Addr().IsUnspecified() {
			v("source-address", fmt.Sprintf("sent from %s, bind address is %q", src, c.Client.Bind))
			continue
		}
		if bind.IsValid() && bind.Port() != 0 && sap.Port() != bind.Port() {
			v("source-port", fmt.Sprintf("sent from %s, bind address is %q", src, c.Client.Bind))
		}
	}
}

// ---- C02 / C03: what a call makes of what its socket was handed ------------------------------

// decide runs the reference acceptance automaton over the delivery log of the call's socket.
// It returns the deciding datagram (nil: none) and the expectation.
func (an *Analysis) decide(c *Call) (deciding *vnet.Ev, exp model.Expect) {
	S := c.St.Args.Serial
	conf := gen.ClientConf(c.Client)
	ctx := model.Ctx{Name: model.NameOf(conf, S)}
	ports := map[uint16]bool{60000: true, model.BroadcastPort(conf): true}
	for _, d := range conf.Devices {
		if d.ID == S {
			if ap, err := netip.ParseAddrPort(d.Addr); err == nil && ap.Port() != 0 {
				ports[ap.Port()] = true
			}
		}
	}
	for p := range ports {
		ctx.Ports = append(ctx.Ports, p)
	}
	sort.Slice(ctx.Ports, func(i, j int) bool { return ctx.Ports[i] < ctx.Ports[j] })

	mustFail := func(why string) model.Expect { return model.Expect{Fail: 2, Why: why} }

	if !c.St.Op.HasReply() {
		return nil, model.Decode(c.St.Op, &c.St.Args, make([]byte, 64), ctx)
	}
	for i := range c.Reads {
		d := &c.Reads[i]
		full := d.Note == fmt.Sprint(d.N) // not truncated by the caller's buffer
		if c.Route.Path == "tcp" && i == 0 && d.N < 64 && strings.Contains(d.Dst, "#") {
			// the peer's reply left it in several TCP segments and the first read returned only part of it. The
			// statement lets a wrong-length message fail the call; an implementation that reads on until it has
			// 64 bytes is not wrong either - then the result must be the decoding of the reassembled message
			var buf []byte
			for _, r := range c.Reads {
				buf = append(buf, r.Data...)
			}
			if len(buf) >= 64 {
				buf = buf[:64]
				if model.Serial(buf) == S && model.HeaderOK(c.St.Op, buf) {
					exp := model.Decode(c.St.Op, &c.St.Args, buf, ctx)
					if exp.Fail == 0 {
						exp.Fail = 1
					}
					exp.Why += " reassembled from TCP segments"
					whole := *d
					whole.Data, whole.N = buf, 64
					return &whole, exp
				}
			}
			e := mustFail("first message on a directed path is not a 64-byte message from the addressed controller")
			return d, e
		}
		passes := d.N == 64 && full && len(d.Data) == 64 && model.Serial(d.Data) == S
		if c.Route.Path == "broadcast" && !passes {
			continue // ignored: the call keeps waiting
		}
		if !passes {
			return d, mustFail("first message on a directed path is not a 64-byte message from the addressed controller")
		}
		if !model.HeaderOK(c.St.Op, d.Data) {
			return d, mustFail("wrong protocol id or function code")
		}
		exp := model.Decode(c.St.Op, &c.St.Args, d.Data, ctx)
		if an.Sc.TZ != "" {
			// the run has a process zone: a civil time that does not exist there is exempt (C13)
			if loc := zones.Load(an.Sc.TZ); loc != nil {
				relaxZone(loc, c.St.Op, &exp, d.Data)
			}
		}
		return d, exp
	}
	return nil, mustFail("no acceptable reply was delivered")
}

// judged: calls whose outcome the reference can speak about.
func (c *Call) judged() bool {
	if c.Reject != "" || c.Begin == nil || c.End == nil || c.Rec == nil || c.St.Op == model.GetDevices {
		return false
	}
	if len(c.Sends) != 1 || c.injected() {
		return false
	}
	return true
}

func checkC02(an *Analysis, add func(Violation)) {
	for _, c := range an.Calls {
		if !c.judged() {
			continue
		}
		d, exp := an.decide(c)
		if d == nil && c.St.Op.HasReply() {
			continue // nothing was delivered: not a question of interpretation
		}
		if d != nil && exp.Fail == 2 && !exp.Sent {
			continue // acceptance, not interpretation (C03)
		}
		if c.Rec.Obs.Panic != "" {
			continue // C04
		}
		if an.Sc.TZ != "" && d != nil {
			// an eighth of the runs has a process zone: interpretation does not depend on it, except where the
			// civil time a reply carries does not exist there (C13's exemptions)
			if loc := zones.Load(an.Sc.TZ); loc != nil {
				relaxZone(loc, c.St.Op, &exp, d.Data)
			}
		}
		aspect, detail := exp.Check(c.Rec.Obs)
		if aspect == "" {
			continue
		}
		var reply []byte
		if d != nil {
			reply = d.Data
		}
		add(Violation{Code: aspect, Sig: "C02:" + c.name() + ":" + aspect, Task: c.Task, Step: c.Step,
			Detail: fmt.Sprintf("%v(%s): %s\n  reply: %s\n  observed: %+v\n  reference: %+v", c.name(), argStr(&c.St.Args), detail, hexs(reply), c.Rec.Obs, exp)})
	}
}

func checkC03(an *Analysis, add func(Violation)) {
	for _, c := range an.Calls {
		// "SetAddress ... succeeds once the request is sent": not before, and not instead
		if c.St.Op == model.SetAddress && c.Reject == "" && c.Begin != nil && c.End != nil && c.Rec != nil && !c.Rec.Obs.Failed() && c.Rec.Obs.Panic == "" && len(c.Sends) == 0 {
			add(Violation{Code: "setaddress-not-sent", Sig: "C03:setaddress-not-sent:" + c.Route.Path, Task: c.Task, Step: c.Step,
				Detail: fmt.Sprintf("SetAddress serial=%d path=%s reported success although no request was sent", c.St.Args.Serial, c.Route.Path)})
			continue
		}
		if !c.judged() || c.Rec.Obs.Panic != "" {
			continue
		}
		d, exp := an.decide(c)
		v := func(code, detail string) {
			var seq []string
			for _, r := range c.Reads {
				seq = append(seq, fmt.Sprintf("[%d bytes from %s: %s]", r.N, r.Src, hexs(r.Data[:min(len(r.Data), 16)])))
			}
			add(Violation{Code: code, Sig: "C03:" + code + ":" + c.Route.Path, Task: c.Task, Step: c.Step,
				Detail: fmt.Sprintf("%v serial=%d path=%s: %s\n  delivered: %s\n  observed: %+v", c.name(), c.St.Args.Serial, c.Route.Path, detail, strings.Join(seq, " "), c.Rec.Obs)})
		}
		if !c.St.Op.HasReply() {
			if len(c.Reads)+len(c.ReadFails) > 0 {
				v("setaddress-reads", "SetAddress consumed a datagram / waited on the socket")
			} else if c.Rec.Obs.Failed() {
				v("setaddress-failed", "SetAddress failed although the request was sent: "+c.Rec.Obs.Err)
			} else if c.End.T != c.Sends[0].T {
				v("setaddress-waited", fmt.Sprintf("SetAddress returned %v after the request was sent", c.End.T-c.Sends[0].T))
			}
			continue
		}
		failed := c.Rec.Obs.Failed()
		// broadcast path: datagrams that do not pass as S's are ignored and the call keeps waiting for S
		if c.Route.Path == "broadcast" && failed && !an.foreignDeciding(c) {
			if ok, a := an.mustSucceed(c, c.Client.Timeout); ok {
				v("stopped-waiting", fmt.Sprintf("the reply of the addressed controller was due %v after the request, before the deadline, behind datagrams that must be ignored - but the call failed %v after the request: %s",
					a.at, c.End.T-c.Sends[0].T, c.Rec.Obs.Err))
				continue
			}
		}
		// "keeps waiting for S until its deadline": nothing that is read after the deadline is the basis of a result
		if T := c.Client.Timeout; !failed && d != nil && d.T > c.Turn()+T {
			v("accepted-after-deadline", fmt.Sprintf("the call succeeded on the basis of a datagram read %v after its turn began; the timeout is %v", d.T-c.Turn(), T))
			continue
		}
		switch {
		case exp.Fail == 2 && exp.Sent:
			// a sentinel rule: interpretation (C02), not acceptance
		case exp.Fail == 2 && !failed:
			if d == nil {
				v("accepted-nothing", "the call succeeded although no acceptable reply was delivered: "+exp.Why)
			} else {
				v("accepted-bad", "the call succeeded on the basis of a datagram that must make it fail: "+exp.Why)
			}
		case exp.Hard && !failed && d != nil && !exp.Sent:
			v("accepted-malformed", "the call succeeded on the basis of a reply with an undecodable field (boolean byte other than 0/1 or non-decimal BCD nibble):"+exp.Why+"\n  reply: "+hexs(d.Data))
		case exp.Fail == 0 && failed:
			// a good reply was delivered; failing is only legitimate if the socket ran into its deadline first
			v("rejected-good", fmt.Sprintf("a well-formed reply from the addressed controller was delivered but the call failed: %s", c.Rec.Obs.Err))
		case !failed && !c.Rec.Obs.Nil && d != nil:
			// success: the content must be the deciding datagram's; if it matches another delivered datagram instead, content leaked
			if aspect, det := exp.Check(c.Rec.Obs); aspect != "" {
				if exp.Fail == 1 && strings.HasPrefix(aspect, "field:") && strings.Contains(exp.Why, "ood:"+strings.TrimPrefix(aspect, "field:")) {
					v("malformed-accepted", fmt.Sprintf("the accepted reply carries a malformed field and the call neither failed nor reported 'no value' for it: %s: %s\n  reply: %s", aspect, det, hexs(d.Data)))
					continue
				}
				for i := range c.Reads {
					o := &c.Reads[i]
					if o == d || o.N != 64 || len(o.Data) != 64 {
						continue
					}
					alt := model.Decode(c.St.Op, &c.St.Args, o.Data, model.Ctx{Name: c.Rec.Obs.F["name"], Ports: []uint16{60000}})
					alt.Fail = 0
					delete(alt.F, "address")
					if a2, _ := alt.Check(c.Rec.Obs); a2 == "" {
						v("leaked-content", fmt.Sprintf("the result carries the content of datagram #%d, not of the reply that was accepted", i))
						break
					}
				}
			}
		}
	}
}

var _ = time.Second
