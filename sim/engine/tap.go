package engine

import (
	"fmt"

	codec "github.com/uhppoted/uhppote-core/encoding/UTO311-L0x"
	"github.com/uhppoted/uhppote-core/messages"
)

// Tap feeds every datagram seen on the simulated network (both directions) to the library's
// decoding entry points and reports panics.
func Tap(res *Result) []string {
	var out []string
	seen := map[string]bool{}
	try := func(name string, d []byte, f func()) {
		defer func() {
			if r := recover(); r != nil {
				out = append(out, fmt.Sprintf("%s on %d bytes %x: %v | %s", name, len(d), d[:min(len(d), 64)], r, shortStack()))
			}
		}()
		f()
	}
	for _, e := range res.Trace {
		switch e.Kind {
		case "udp-send", "tcp-send", "udp-arrive", "tcp-arrive", "udp-lost", "tcp-lost":
		default:
			continue
		}
		if len(e.Data) == 0 && e.N == 0 {
			continue
		}
		k := string(e.Data)
		if seen[k] {
			continue
		}
		seen[k] = true
		d := e.Data
		try("UnmarshalRequest", d, func() {
			if v, err := messages.UnmarshalRequest(d); err == nil {
				codec.Marshal(v)
			}
		})
		try("UnmarshalResponse", d, func() {
			if v, err := messages.UnmarshalResponse(d); err == nil {
				codec.Marshal(v)
			}
		})
		try("Unmarshal(event)", d, func() {
			var ev messages.Event
			codec.Unmarshal(d, &ev)
			var ev2 messages.EventV6_62
			codec.Unmarshal(d, &ev2)
		})
	}
	return out
}
