package engine

import (
	"net/netip"
	"sort"
	"strconv"
	"strings"
	"time"

	"verif/sim/vnet"
)

// world plays the scenario's endpoints and emission plans. Scheduler goroutine only.
type world struct {
	sc        *Scenario
	triggered map[[2]int]int // (task, step) -> number of requests seen on the wire
	fed       map[[2]int]bool
}

func newWorld(sc *Scenario) *world {
	return &world{sc: sc, triggered: map[[2]int]int{}, fed: map[[2]int]bool{}}
}

func (w *world) step(task, step int) *Step {
	if task < 0 || task >= len(w.sc.Tasks) {
		return nil
	}
	t := &w.sc.Tasks[task]
	if step < 0 || step >= len(t.Steps) {
		return nil
	}
	return &t.Steps[step]
}

func (w *world) isBcast(a netip.Addr) bool {
	if a == netip.AddrFrom4([4]byte{255, 255, 255, 255}) {
		return true
	}
	for _, b := range w.sc.Bcast {
		if b == a.String() {
			return true
		}
	}
	return false
}

// reached lists the endpoints a packet to dst reaches.
func (w *world) reached(proto string, dst netip.AddrPort) []string {
	var names []string
	for _, e := range w.sc.Endpoints {
		if e.Proto != proto || e.Port != dst.Port() {
			continue
		}
		if e.IP == dst.Addr().String() || (proto == "udp" && w.isBcast(dst.Addr())) {
			names = append(names, e.Name)
		}
	}
	sort.Strings(names)
	return names
}

func (w *world) UDPSend(s *vnet.Sim, k *vnet.Socket, src, dst netip.AddrPort, payload []byte) {
	names := w.reached("udp", dst)
	s.Log(vnet.Ev{Kind: "reach", Task: k.Task, Step: k.Step, Sock: k.ID, Dst: dst.String(), Note: "udp:" + strings.Join(names, ",")})
	key := [2]int{k.Task, k.Step}
	n := w.triggered[key]
	w.triggered[key] = n + 1
	st := w.step(k.Task, k.Step)
	if st == nil || st.Kind != "call" || n > 0 {
		return
	}
	w.play(s, k, src, st.Plan.Emits)
}

func (w *world) play(s *vnet.Sim, k *vnet.Socket, src netip.AddrPort, emits []Emit) {
	w.playAs(s, k, src, emits, k.Task, k.Step)
}

func (w *world) playAs(s *vnet.Sim, k *vnet.Socket, src netip.AddrPort, emits []Emit, task, step int) {
	for i := range emits {
		e := emits[i]
		e.Class = e.Class + "@" + strconv.Itoa(task) + "." + strconv.Itoa(step) + "." + strconv.Itoa(i)
		switch e.Via {
		case "udp":
			from, err := netip.ParseAddrPort(e.From)
			if err != nil {
				continue
			}
			to := src
			if e.ToPort != 0 {
				to = netip.AddrPortFrom(src.Addr(), e.ToPort)
			}
			s.After(e.After, "emit-udp", func() { s.DeliverUDP(from, to, e.Data, e.Class) })
		case "icmp":
			s.After(e.After, "emit-icmp", func() { s.ICMPRefuse(k) })
		case "tcp":
			if len(e.Split) == 0 {
				s.After(e.After, "emit-tcp", func() { s.DeliverTCP(k, e.Data, e.Class) })
				break
			}
			rest, at := e.Data, e.After
			for j := 0; len(rest) > 0; j++ {
				n := len(rest)
				if j < len(e.Split) && e.Split[j] > 0 && e.Split[j] < n {
					n = e.Split[j]
				}
				seg, tag := rest[:n], e.Class+"#"+strconv.Itoa(j)
				s.After(at, "emit-tcp-seg", func() { s.DeliverTCP(k, seg, tag) })
				rest = rest[n:]
				at += e.Gap
			}
		case "tcp-rst":
			s.After(e.After, "emit-rst", func() { s.TCPReset(k) })
		case "tcp-fin":
			s.After(e.After, "emit-fin", func() { s.TCPFin(k) })
		}
	}
}

func (w *world) TCPConnect(s *vnet.Sim, k *vnet.Socket, src, dst netip.AddrPort) {
	names := w.reached("tcp", dst)
	s.Log(vnet.Ev{Kind: "reach", Task: k.Task, Step: k.Step, Sock: k.ID, Dst: dst.String(), Note: "tcp:" + strings.Join(names, ",")})
	st := w.step(k.Task, k.Step)
	mode := "refuse"
	var delay = st.planDelay()
	if st != nil && st.Kind == "call" && st.Plan.TCP != "" {
		mode = st.Plan.TCP
	}
	if len(names) == 0 && mode == "accept" {
		mode = "refuse" // nobody listens there
	}
	switch mode {
	case "accept":
		s.After(delay, "tcp-accept", func() { s.TCPConnected(k) })
	case "refuse":
		s.After(delay, "tcp-refuse", func() { s.TCPRefused(k) })
	case "blackhole":
	}
}

func (st *Step) planDelay() time.Duration {
	if st == nil {
		return 0
	}
	return st.Plan.ConnDelay
}

func (w *world) TCPSend(s *vnet.Sim, k *vnet.Socket, payload []byte) {
	// the peer answers the request of the step that wrote it - on a connection the library kept open
	// from an earlier call, too
	key := [2]int{k.WTask, k.WStep}
	n := w.triggered[key]
	w.triggered[key] = n + 1
	st := w.step(k.WTask, k.WStep)
	if st == nil || st.Kind != "call" || n > 0 {
		return
	}
	w.playAs(s, k, k.Local(), st.Plan.Emits, k.WTask, k.WStep)
}

func (w *world) TCPClose(s *vnet.Sim, k *vnet.Socket) {}

func (w *world) SockOpened(s *vnet.Sim, k *vnet.Socket) {
	st := w.step(k.Task, k.Step)
	if st == nil || st.Kind != "listen" || k.Proto != "udp" || k.Connected {
		return
	}
	key := [2]int{k.Task, k.Step}
	if w.fed[key] {
		return
	}
	w.fed[key] = true
	dst := k.Local()
	if dst.Addr().IsUnspecified() {
		hip, _ := netip.ParseAddr(w.sc.HostIP)
		dst = netip.AddrPortFrom(hip, dst.Port())
	}
	for i := range st.Feed {
		e := st.Feed[i]
		from, err := netip.ParseAddrPort(e.From)
		if err != nil {
			continue
		}
		s.After(e.After, "feed", func() { s.DeliverUDP(from, dst, e.Data, "feed:"+strconv.Itoa(i)+":"+e.Class) })
	}
}
