// Package engine executes one Scenario (explicit data: configuration, world, tasks, emission
// plans, fault sites) against the real library on the simulated kernel and returns the trace.
package engine

import (
	"time"

	"verif/sim/model"
	"verif/sim/vnet"
)

type DeviceCfg struct {
	Name     string   `json:"name,omitempty"`
	ID       uint32   `json:"id"`
	Addr     string   `json:"addr,omitempty"` // "" = no address; else ip:port (port may be 0)
	Protocol string   `json:"protocol,omitempty"`
	Doors    []string `json:"doors,omitempty"`
	Raw      bool     `json:"raw,omitempty"` // build the Device literal directly instead of NewDevice (keeps Protocol verbatim)
	NilTZ    bool     `json:"niltz,omitempty"` // raw literal with a nil TimeZone
	TZ       string   `json:"tz,omitempty"`  // IANA zone given as the controller's time zone ("" = none: UTC for a literal, nil for NewDevice)
}

type ClientCfg struct {
	Bind      string        `json:"bind,omitempty"`      // "" = zero BindAddr
	Broadcast string        `json:"broadcast,omitempty"` // "" = zero BroadcastAddr (unset)
	Listen    string        `json:"listen,omitempty"`
	Timeout   time.Duration `json:"timeout"`
	Devices   []DeviceCfg   `json:"devices,omitempty"`
	NilDevs   bool          `json:"nildevs,omitempty"`
	Debug     bool          `json:"debug,omitempty"` // the library's debug flag: dumps every message to stdout
}

// Endpoint is something on the simulated network that is listening.
type Endpoint struct {
	Name   string `json:"name"`
	Serial uint32 `json:"serial,omitempty"`
	IP     string `json:"ip"`
	Port   uint16 `json:"port"`
	Proto  string `json:"proto"` // udp | tcp
}

// Emit is one thing the world does in reaction to a request (or on the listener's timetable).
type Emit struct {
	After time.Duration `json:"after"`
	Via   string        `json:"via"`            // udp | tcp | tcp-rst | tcp-fin | icmp
	From  string        `json:"from,omitempty"` // udp: source ip:port
	Data  []byte        `json:"data,omitempty"`
	Class string        `json:"class,omitempty"`
	// Split: a TCP message leaves the peer in several segments of these sizes (the last takes the rest), Gap apart
	Split []int         `json:"split,omitempty"`
	Gap   time.Duration `json:"gap,omitempty"`
	// ToPort overrides the destination port (stale/misdirected datagrams); 0 = the request's source port
	ToPort uint16 `json:"toport,omitempty"`
}

type Plan struct {
	TCP       string        `json:"tcp,omitempty"` // accept | refuse | blackhole
	ConnDelay time.Duration `json:"conndelay,omitempty"`
	Emits     []Emit        `json:"emits,omitempty"`
}

type Step struct {
	Kind   string        `json:"kind"` // call | listen | stop | sleep | mutate-config | mutate-devlist | clone | checkpoint
	Client int           `json:"client"`
	Op     model.Op      `json:"op"`
	Args   model.Args    `json:"args"`
	Plan   Plan          `json:"plan"`
	Delay  time.Duration `json:"delay,omitempty"`

	// listen
	Feed       []Emit          `json:"feed,omitempty"`  // datagrams sent to the listen address; After is relative to the bind
	Holds      []time.Duration `json:"holds,omitempty"` // simulated time the harness spends in the k-th callback
	StopAfter  time.Duration   `json:"stopafter,omitempty"`
	Target     [2]int          `json:"target,omitempty"`     // stop: (task, step) of the listen step
	StopPending bool          `json:"stoppending,omitempty"` // listen: the stop signal is already in the channel when Listen is called
	OnErrFalse bool            `json:"onerrfalse,omitempty"` // listen: the application's OnError returns false
	SameQ      bool            `json:"sameq,omitempty"`      // listen: the application passes the signal channel of its previous Listen call again

	// call options
	Scribble  bool `json:"scribble,omitempty"`  // overwrite the network buffers after the call and re-observe the result
	MutateRes bool `json:"mutateres,omitempty"` // mutate the returned value's maps/slices afterwards (must not affect later results)
	Hostile   int  `json:"hostile,omitempty"`   // C04: variant of hostile argument construction
}

type Task struct {
	Start time.Duration `json:"start"`
	Steps []Step        `json:"steps"`
}

type Scenario struct {
	Seed        int64              `json:"seed"`
	Profile     string             `json:"profile"`
	TZ          string             `json:"tz,omitempty"`
	HostIP      string             `json:"hostip"`
	HostIP2     string             `json:"hostip2,omitempty"` // second address of a multi-homed client host
	Bcast       []string           `json:"bcast,omitempty"`
	Clients     []ClientCfg        `json:"clients"`
	Endpoints   []Endpoint         `json:"endpoints,omitempty"`
	Tasks       []Task             `json:"tasks"`
	Foreign     []vnet.ForeignPort `json:"foreign,omitempty"`
	Faults      []vnet.Fault       `json:"faults,omitempty"`
	Checkpoints bool               `json:"checkpoints,omitempty"` // single task: quiesce + count goroutines/sockets after every step
	ParseDates  bool               `json:"parsedates,omitempty"`  // the harness builds date arguments with types.ParseDate instead of types.ToDate
	Tape        []int              `json:"tape,omitempty"`
	UseTape     bool               `json:"usetape,omitempty"`
}
