package engine

import (
	"sync/atomic"
	"encoding/json"
	"fmt"
	"net"
	"net/netip"
	"os"
	"reflect"
	"runtime"
	"sort"
	"strings"
	"sync"
	"testing"
	"testing/synctest"
	"time"

	"github.com/uhppoted/uhppote-core/types"
	"github.com/uhppoted/uhppote-core/uhppote"

	"verif/sim/model"
	"verif/sim/vnet"
	"verif/sim/zones"
)

// Result of one simulated run.
type Result struct {
	Trace       []vnet.Ev
	Tape        []int
	Hash        uint64
	Verdict     string
	Leaked      []string
	G0, G1      int
	BubblePanic string
	Steps       int
	SimTime     time.Duration
	Stats       map[string]int
	Races       int
	RaceSig     string
	RaceLog     string
	LeakStacks  string
}

// CallRec is the payload of a "call-end" point.
type CallRec struct {
	Op   model.Op            `json:"op"`
	Obs  model.Obs           `json:"obs"`
	List []map[string]string `json:"list,omitempty"`
	IsL  bool                `json:"isl,omitempty"`
}

type harness struct {
	tmu     sync.Mutex
	table   []uint32 // shared flat passcode table (SetDoorPasscodes arguments are windows of it)
	tableN  int
	sim     *vnet.Sim
	sc      *Scenario
	clients []uhppote.IUHPPOTE
	devs    [][]uhppote.Device
	devs0   [][]uhppote.Device // pristine copies of what the clients were built from
	qs      map[[2]int]chan os.Signal
}

// Run executes the scenario in a fresh synctest bubble. It runs the bubble in a subtest of t: when the
// race detector has reported something, the testing package unwinds the goroutine that called
// synctest.Test (runtime.Goexit), which must not take the worker's sweep down with it.
func Run(t *testing.T, sc *Scenario) *Result {
	res := &Result{}
	t.Run("run", func(t *testing.T) { runInto(t, sc, res) })
	return res
}

func runInto(t *testing.T, sc *Scenario, res *Result) {
	races0 := vnet.RaceErrors()

	saved := time.Local
	if sc.TZ != "" {
		loc, err := time.LoadLocation(sc.TZ)
		if err != nil {
			panic(fmt.Sprintf("engine: zone %q: %v", sc.TZ, err))
		}
		time.Local = loc
	} else {
		time.Local = time.UTC
	}
	defer func() { time.Local = saved }()
	parseDates = sc.ParseDates
	dateNotes = nil

	var sim *vnet.Sim
	// everything after the bubble also runs when the goroutine is being unwound
	defer func() { collect(res, sim, races0) }()
	func() {
		defer func() {
			if r := recover(); r != nil {
				res.BubblePanic = fmt.Sprint(r)
				buf := make([]byte, 1<<20)
				n := runtime.Stack(buf, true)
				res.LeakStacks = leakedStacks(string(buf[:n]))
			}
		}()
		res.G0 = runtime.NumGoroutine()
		Running.Store(true)
		defer Running.Store(false)
		synctest.Test(t, func(t *testing.T) {
			h := &harness{sc: sc, qs: map[[2]int]chan os.Signal{}}
			var bc []netip.Addr
			for _, b := range sc.Bcast {
				if a, err := netip.ParseAddr(b); err == nil {
					bc = append(bc, a)
				}
			}
			horizon := 10 * time.Second
			for _, c := range sc.Clients {
				horizon += 40 * c.Timeout
			}
			for _, tk := range sc.Tasks {
				horizon += tk.Start
				for _, st := range tk.Steps {
					horizon += st.Delay + st.StopAfter
					if st.Kind == "call" && st.Client >= 0 && st.Client < len(sc.Clients) {
						horizon += sc.Clients[st.Client].Timeout // every call may take its whole timeout
					}
				}
			}
			sim = vnet.New(vnet.Config{
				Seed: sc.Seed, Tape: sc.Tape, UseTape: sc.UseTape,
				HostIPs: hostIPs(sc), Bcast: bc, Foreign: sc.Foreign, Faults: sc.Faults,
				Horizon: horizon, World: newWorld(sc),
			})
			h.sim = sim
			h.build()
			for ti := range sc.Tasks {
				for si := range sc.Tasks[ti].Steps {
					if sc.Tasks[ti].Steps[si].Kind == "listen" {
						h.qs[[2]int{ti, si}] = make(chan os.Signal, 1)
						if sc.Tasks[ti].Steps[si].SameQ {
							for pj := si - 1; pj >= 0; pj-- {
								if sc.Tasks[ti].Steps[pj].Kind == "listen" {
									h.qs[[2]int{ti, si}] = h.qs[[2]int{ti, pj}]
									break
								}
							}
						}
					}
				}
			}
			for ti := range sc.Tasks {
				ti := ti
				sim.Go(ti, fmt.Sprintf("task%02d", ti), sc.Tasks[ti].Start, func() { h.task(ti) })
			}
			sim.Run()
			synctest.Wait()
		})
	}()
}

func collect(res *Result, sim *vnet.Sim, races0 int) {
	// every goroutine of the bubble has exited by now (or the bubble panicked); runtime helpers
	// (finalizers, cleanups) are counted while they run, so a surplus must persist to count
	res.G1 = runtime.NumGoroutine()
	for i := 0; i < 200 && res.G1 > res.G0; i++ {
		time.Sleep(time.Millisecond)
		res.G1 = runtime.NumGoroutine()
	}
	if res.G1 > res.G0 && res.LeakStacks == "" {
		buf := make([]byte, 1<<20)
		n := runtime.Stack(buf, true)
		res.LeakStacks = string(buf[:n])
	}

	if sim != nil {
		res.Trace = sim.Trace
		res.Tape = sim.TapeOut
		res.Hash = sim.Hash()
		res.Verdict = sim.Verdict
		res.Leaked = sim.Leaked
		res.Steps = sim.Steps
		res.SimTime = sim.Now()
		res.Stats = sim.Stats
	}
	res.Races = vnet.RaceErrors() - races0
	if res.Races > 0 {
		res.RaceLog, res.RaceSig = raceReport()
	}
}

var raceLogOff int64

// raceReport reads what the race detector appended to its log (GORACE=log_path=...) since the last call.
func raceReport() (log string, sig string) {
	path := ""
	for _, kv := range strings.Fields(os.Getenv("GORACE")) {
		if v, ok := strings.CutPrefix(kv, "log_path="); ok {
			path = fmt.Sprintf("%s.%d", v, os.Getpid())
		}
	}
	if path == "" {
		return "(no GORACE log_path)", "unlocated"
	}
	b, err := os.ReadFile(path)
	if err != nil {
		return err.Error(), "unlocated"
	}
	if int64(len(b)) > raceLogOff {
		log = string(b[raceLogOff:])
		raceLogOff = int64(len(b))
	}
	// signature: the first library frame of each of the two conflicting accesses
	var locs []string
	blocks := strings.Split(log, "\n\n")
	for _, blk := range blocks {
		head := strings.TrimSpace(strings.SplitN(blk, "\n", 2)[0])
		if !(strings.Contains(head, " at 0x") && (strings.HasPrefix(head, "Read") || strings.HasPrefix(head, "Write") || strings.HasPrefix(head, "Previous"))) {
			if !strings.Contains(blk, "WARNING: DATA RACE") {
				continue
			}
		}
		for _, ln := range strings.Split(blk, "\n") {
			ln = strings.TrimSpace(ln)
			if strings.HasPrefix(ln, "/repo/") {
				loc := strings.Fields(ln)[0]
				locs = append(locs, strings.TrimPrefix(loc, "/repo/"))
				break
			}
		}
		if len(locs) == 2 {
			break
		}
	}
	sort.Strings(locs)
	if len(locs) == 0 {
		return log, "unlocated"
	}
	if len(log) > 6000 {
		log = log[:6000]
	}
	return log, strings.Join(locs, "+")
}

// libraryGoroutines counts the goroutines (other than harness tasks) whose stack is in library code.
func libraryGoroutines() int {
	buf := make([]byte, 1<<20)
	n := runtime.Stack(buf, true)
	c := 0
	for _, g := range strings.Split(string(buf[:n]), "\n\n") {
		if strings.Contains(g, "uhppote-core/") && !strings.Contains(g, "engine.(*harness).task(") {
			c++
		}
	}
	return c
}

// leakedStacks keeps the goroutines of a full dump that sit in library code.
func leakedStacks(dump string) string {
	var keep []string
	for _, g := range strings.Split(dump, "\n\n") {
		if strings.Contains(g, "uhppote-core/") || strings.Contains(g, "/repo/") {
			if strings.Contains(g, "engine.Run(") {
				continue
			}
			lines := strings.Split(g, "\n")
			if len(lines) > 12 {
				lines = lines[:12]
			}
			keep = append(keep, strings.Join(lines, "\n"))
		}
	}
	return strings.Join(keep, "\n\n")
}

func hostIPs(sc *Scenario) []netip.Addr {
	var out []netip.Addr
	for _, x := range []string{sc.HostIP, sc.HostIP2} {
		if a, err := netip.ParseAddr(x); err == nil {
			out = append(out, a)
		}
	}
	return out
}

func addrPort(s string) netip.AddrPort {
	if s == "" {
		return netip.AddrPort{}
	}
	ap, err := netip.ParseAddrPort(s)
	if err != nil {
		return netip.AddrPort{}
	}
	return ap
}

func (h *harness) build() {
	for _, c := range h.sc.Clients {
		var devs []uhppote.Device
		if !c.NilDevs {
			devs = []uhppote.Device{}
		}
		for _, d := range c.Devices {
			addr := types.ControllerAddr{AddrPort: addrPort(d.Addr)}
			var doors []string
			if d.Doors != nil {
				doors = append([]string{}, d.Doors...)
			}
			var tz *time.Location
			if d.TZ != "" {
				tz = zones.Load(d.TZ)
			}
			if d.Raw {
				if tz == nil && !d.NilTZ {
					tz = time.UTC
				}
				devs = append(devs, uhppote.Device{Name: d.Name, DeviceID: d.ID, Address: addr, Doors: doors, TimeZone: tz, Protocol: d.Protocol})
			} else {
				devs = append(devs, uhppote.NewDevice(d.Name, d.ID, addr, d.Protocol, doors, tz))
			}
		}
		u := uhppote.NewUHPPOTE(
			types.BindAddr{AddrPort: addrPort(c.Bind)},
			types.BroadcastAddr{AddrPort: addrPort(c.Broadcast)},
			types.ListenAddr{AddrPort: addrPort(c.Listen)},
			c.Timeout, devs, c.Debug)
		h.clients = append(h.clients, u)
		h.devs = append(h.devs, devs)
		pristine := make([]uhppote.Device, len(devs))
		for i, d := range devs {
			pristine[i] = d
			if d.Doors != nil {
				pristine[i].Doors = append([]string{}, d.Doors...)
			}
		}
		h.devs0 = append(h.devs0, pristine)
	}
}

const passSentinel = 0xdeadbeef

// passWindow places the passcodes in the shared table and returns the window plus a function that
// verifies afterwards that neither the window nor its surroundings were written to.
func (h *harness) passWindow(st *Step, pass []uint32) ([]uint32, func() string) {
	if pass == nil {
		return nil, func() string { return "" }
	}
	h.tmu.Lock()
	if h.table == nil {
		h.table = make([]uint32, 4096)
		for i := range h.table {
			h.table[i] = passSentinel
		}
	}
	gap := 8
	if h.sc.Profile == "C08" {
		gap = 0 // concurrent callers hold adjacent windows: one caller's spare capacity is the next caller's argument
	}
	off := h.tableN
	h.tableN += len(pass) + gap
	if h.tableN+16 > len(h.table) {
		off, h.tableN = 0, len(pass)+gap
	}
	h.tmu.Unlock()
	win := h.table[off : off+len(pass)]
	copy(win, pass)
	return win, func() string {
		for i, v := range pass {
			if win[i] != v {
				return fmt.Sprintf("SetDoorPasscodes modified its argument: passcodes[%d] was %d, is %d", i, v, win[i])
			}
		}
		for i := off + len(pass); i < off+len(pass)+gap && i < len(h.table); i++ {
			if h.table[i] != passSentinel {
				return fmt.Sprintf("SetDoorPasscodes wrote beyond the slice it was given (into its spare capacity): element %d past the end is %d", i-off-len(pass), h.table[i])
			}
		}
		return ""
	}
}

func (h *harness) point(tag string, step int, v any) {
	var data []byte
	if v != nil {
		data, _ = json.Marshal(v)
	}
	h.sim.Point(tag, step, data)
}

// checkpoint waits until the process is quiescent and reports what the last step left behind.
func (h *harness) checkpoint(tag string, g0 int) {
	open := h.sim.Quiesce("post")
	n := runtime.NumGoroutine()
	for i := 0; i < 2000 && n > g0; i++ {
		runtime.Gosched()
		n = runtime.NumGoroutine()
	}
	extra := 0
	if n > g0 {
		// runtime helpers (finalizers, cleanups) are counted while they run: only goroutines
		// that sit in library code are the call's
		extra = libraryGoroutines()
	}
	h.point(tag, -1, map[string]int{"goroutines": extra, "sockets": open})
}

// Running: a simulated run is in progress (read by the worker's watchdog).
var Running atomic.Bool

type kept struct {
	step int
	op   model.Op
	val  any
	rec  CallRec
}

func (h *harness) task(ti int) {
	tk := &h.sc.Tasks[ti]
	var keep []kept
	var lastCard *types.Card
	g0 := 0
	for si := range tk.Steps {
		st := &tk.Steps[si]
		switch st.Kind {
		case "sleep":
			h.point("sleep-step", si, nil)
			h.sim.SleepSim(st.Delay)

		case "call":
			if h.sc.Checkpoints && si == 0 {
				h.sim.Quiesce("pre")
				g0 = runtime.NumGoroutine()
			}
			h.point("call-begin", si, nil)
			val, rec, argsChanged := h.call(st)
			h.point("call-end", -1, rec)
			if argsChanged != "" {
				h.point("arg-mutated", -1, argsChanged)
			}
			dateMu.Lock()
			notes := dateNotes
			dateNotes = nil
			dateMu.Unlock()
			for _, n := range notes {
				h.point("date-shift", -1, n)
			}
			if c, ok := val.(*types.Card); ok && c != nil {
				lastCard = c
			}
			if p := render(val); p != "" {
				h.point("render-panic", -1, p)
			}
			if st.Scribble && rec.Obs.Err == "" && !rec.Obs.Nil {
				h.sim.ScribbleStep(si, 0xa5)
				if rec2 := observe(st.Op, val, nil); !reflect.DeepEqual(rec2.Obs.F, rec.Obs.F) || !reflect.DeepEqual(rec2.List, rec.List) {
					h.point("result-changed", -1, map[string]any{"before": rec, "after": rec2, "when": "buffers overwritten"})
				}
			}
			if st.MutateRes {
				// the mutated value is the caller's own; what must not change are the *other* results
				mutateResult(val)
				for _, k := range keep {
					if rec2 := observe(k.op, k.val, nil); !reflect.DeepEqual(rec2.Obs.F, k.rec.Obs.F) || !reflect.DeepEqual(rec2.List, k.rec.List) {
						h.point("result-changed", -1, map[string]any{"step": k.step, "before": k.rec, "after": rec2, "when": "another result mutated"})
					}
				}
			} else if rec.Obs.Err == "" && !rec.Obs.Nil {
				keep = append(keep, kept{si, st.Op, val, rec})
			}
			if h.sc.Checkpoints {
				h.checkpoint("checkpoint", g0)
			}

		case "listen":
			if h.sc.Checkpoints && si == 0 {
				h.sim.Quiesce("pre")
				g0 = runtime.NumGoroutine()
			}
			h.listen(ti, si, st)
			if h.sc.Checkpoints {
				h.checkpoint("checkpoint-listen", g0)
			}

		case "putback":
			// write the card that was read last back to the controller, as returned
			h.point("call-begin", si, nil)
			if lastCard != nil {
				ok, err := h.clients[st.Client].PutCard(st.Args.Serial, *lastCard)
				h.point("putback-end", -1, observe(model.PutCard, ok, err))
			} else {
				h.point("putback-skipped", -1, nil)
			}

		case "stop":
			h.point("stop", si, nil)
			if q := h.qs[st.Target]; q != nil && vnet.SignalDeliverable(q) {
				select {
				case q <- os.Interrupt:
				default:
				}
			}

		case "mutate-config":
			h.point("mutate-config", si, nil)
			devs := h.devs[st.Client]
			for i := range devs {
				devs[i].DeviceID ^= 0x5a5a5a5a
				devs[i].Address = types.ControllerAddr{AddrPort: netip.MustParseAddrPort("10.66.66.66:6666")}
				devs[i].Protocol = "tcp"
				devs[i].Name = "mutated"
				for j := range devs[i].Doors {
					devs[i].Doors[j] = "mutated"
				}
			}

		case "mutate-devlist":
			h.point("mutate-devlist", si, nil)
			m := h.clients[st.Client].DeviceList()
			var keys []uint32
			for k := range m {
				keys = append(keys, k)
			}
			sort.Slice(keys, func(i, j int) bool { return keys[i] < keys[j] })
			for _, k := range keys {
				d := m[k]
				d.Address = types.ControllerAddr{AddrPort: netip.MustParseAddrPort("10.66.66.66:6666")}
				d.Protocol = "tcp"
				d.DeviceID ^= 0x5a5a5a5a
				m[k] = d
				m[k^0x5a5a5a5a] = d
				if st.Delay != 0 {
					delete(m, k)
				}
			}

		case "clone":
			h.point("clone", si, nil)
			if msg := cloneChecks(st); msg != "" {
				h.point("clone-aliased", -1, msg)
			}
			if msg := h.configKept(st.Client); msg != "" {
				h.point("config-changed", -1, msg)
			}
		}
	}
	// results must still read the same at the end of the task
	if len(keep) > 0 {
		h.sim.ScribbleStep(-1, 0x5a)
		for _, k := range keep {
			if rec2 := observe(k.op, k.val, nil); !reflect.DeepEqual(rec2.Obs.F, k.rec.Obs.F) || !reflect.DeepEqual(rec2.List, k.rec.List) {
				h.point("result-changed", -1, map[string]any{"step": k.step, "before": k.rec, "after": rec2, "when": "end of task"})
			}
		}
	}
}

// configKept compares what the client reports as its configuration with what it was built from
// (the last entry wins where a controller is listed twice). Door names are left out: they are
// reachable - and legitimately changed by the mutate-devlist step - through DeviceList().
func (h *harness) configKept(client int) string {
	if client < 0 || client >= len(h.clients) {
		return ""
	}
	want := map[uint32]uhppote.Device{}
	for _, d := range h.devs0[client] {
		want[d.DeviceID] = d
	}
	got := h.clients[client].DeviceList()
	if len(got) != len(want) {
		return fmt.Sprintf("the client was built with %d controllers and lists %d", len(want), len(got))
	}
	ids := make([]uint32, 0, len(want))
	for id := range want {
		ids = append(ids, id)
	}
	sort.Slice(ids, func(i, j int) bool { return ids[i] < ids[j] })
	for _, id := range ids {
		w := want[id]
		g, ok := got[id]
		if !ok {
			return fmt.Sprintf("controller %d is missing from the client's configuration", id)
		}
		if g.Name != w.Name || g.DeviceID != w.DeviceID || g.Address != w.Address || g.Protocol != w.Protocol || g.TimeZone != w.TimeZone || len(g.Doors) != len(w.Doors) {
			return fmt.Sprintf("controller %d: built with {name:%q address:%v protocol:%q zone:%v doors:%d}, the client holds {name:%q address:%v protocol:%q zone:%v doors:%d}",
				id, w.Name, w.Address, w.Protocol, w.TimeZone, len(w.Doors), g.Name, g.Address, g.Protocol, g.TimeZone, len(g.Doors))
		}
	}
	return ""
}

// ---- listener -------------------------------------------------------------------------------

type lst struct {
	h     *harness
	id    [2]int
	st    *Step
	n     int
	kept  []*types.Status
	first []map[string]string
	mu    sync.Mutex // the application's own lock around what its callbacks publish (never held across a hook)
}

func (l *lst) hold() {
	if l.n < len(l.st.Holds) && l.st.Holds[l.n] > 0 {
		l.h.sim.SleepSim(l.st.Holds[l.n])
	}
	l.n++
}

func (l *lst) OnConnected() {
	l.h.point("on-connected", -1, map[string]any{"l": l.id})
}

func (l *lst) OnEvent(s *types.Status) {
	o := observeStatus(s)
	// what a real application does: publish what the callback was given under a lock of its own
	l.mu.Lock()
	l.kept = append(l.kept, s)
	l.first = append(l.first, o)
	l.mu.Unlock()
	l.h.point("on-event", -1, map[string]any{"l": l.id, "obs": o})
	if s != nil {
		if p := render(s); p != "" {
			l.h.point("render-panic", -1, p)
		}
	}
	l.hold()
}

func (l *lst) OnError(err error) bool {
	msg := "<nil>"
	if err != nil {
		msg = err.Error()
	}
	l.h.point("on-error", -1, map[string]any{"l": l.id, "err": msg})
	l.hold()
	return !l.st.OnErrFalse
}

func (h *harness) listen(ti, si int, st *Step) {
	l := &lst{h: h, st: st, id: [2]int{ti, si}}
	q := h.qs[[2]int{ti, si}]
	h.point("listen-begin", si, nil)
	if st.StopPending {
		// the application was told to stop before it got round to listening: the signal is waiting in its channel
		h.sim.Point("stop", -1, nil)
		if vnet.SignalDeliverable(q) {
			select {
			case q <- os.Interrupt:
			default:
			}
		}
	} else if st.StopAfter > 0 {
		// a helper goroutine of the harness delivers the stop signal
		h.sim.Go(-1-ti, fmt.Sprintf("task%02d/stopper%d", ti, si), 0, func() {
			h.sim.SleepSim(st.StopAfter)
			h.sim.Point("stop", -1, nil)
			if !vnet.SignalDeliverable(q) {
				// the library has told the OS (signal.Stop) not to deliver to the application's channel any more
				h.sim.Point("stop-undeliverable", -1, nil)
				return
			}
			select {
			case q <- os.Interrupt:
			default:
			}
		})
	}
	var err error
	func() {
		defer func() {
			if r := recover(); r != nil {
				err = fmt.Errorf("PANIC: %v", r)
				h.point("task-panic", -1, fmt.Sprintf("%v\n%s", r, shortStack()))
			}
		}()
		err = h.clients[st.Client].Listen(l, q)
	}()
	msg := ""
	if err != nil {
		msg = err.Error()
	}
	h.point("listen-end", -1, msg)
	h.sim.ScribbleStep(si, 0xa5)
	l.mu.Lock()
	kept := append([]*types.Status{}, l.kept...)
	first := append([]map[string]string{}, l.first...)
	l.mu.Unlock()
	for i, s := range kept {
		if o := observeStatus(s); !reflect.DeepEqual(o, first[i]) {
			h.point("status-changed", -1, map[string]any{"l": l.id, "n": i, "before": first[i], "after": o})
		}
	}
}

func shortStack() string {
	buf := make([]byte, 8192)
	n := runtime.Stack(buf, false)
	lines := strings.Split(string(buf[:n]), "\n")
	var keep []string
	for _, ln := range lines {
		if strings.Contains(ln, "/repo/") {
			keep = append(keep, strings.TrimSpace(ln))
		}
	}
	if len(keep) > 6 {
		keep = keep[:6]
	}
	return strings.Join(keep, " | ")
}

// ---- argument construction ------------------------------------------------------------------

var (
	parseDates bool     // set per run (C13)
	dateNotes  []string // constructed dates that do not report their own year, month and day
	dateMu     sync.Mutex
)

func toDate(d model.Date) types.Date {
	if d.Zero {
		switch d.ZK {
		case 1:
			return types.Date(time.Time{}.Local())
		case 2:
			return types.Date(time.Time{}.In(time.FixedZone("X", 3600)))
		case 3:
			return types.Date(time.Unix(-62135596800, 0))
		}
		return types.Date{}
	}
	var v types.Date
	how := "ToDate"
	if parseDates && d.Y >= 0 && d.Y <= 9999 && d.M >= 1 && d.M <= 12 && d.D >= 1 && d.D <= 31 {
		how = "ParseDate"
		var err error
		if v, err = types.ParseDate(d.String()); err != nil {
			v = types.ToDate(d.Y, time.Month(d.M), d.D)
			how = "ToDate"
		}
	} else {
		v = types.ToDate(d.Y, time.Month(d.M), d.D)
	}
	if model.ValidDate(d.Y, d.M, d.D) && d.Y >= 1 && d.Y <= 9999 && !zones.NoInstant(time.Local, d.Y, d.M, d.D) {
		// (a calendar day the process zone skipped entirely is exempt)
		if got := obsDate(v); got != d.String() {
			dateMu.Lock()
			dateNotes = append(dateNotes, fmt.Sprintf("%s(%s) reports %s in zone %s", how, d.String(), got, time.Local))
			dateMu.Unlock()
		}
	}
	return v
}

func toWeekdays(m map[int]bool) types.Weekdays {
	if m == nil {
		return nil
	}
	w := types.Weekdays{}
	for k, v := range m {
		w[time.Weekday(k)] = v
	}
	return w
}

type builtArgs struct {
	IPs      [3]net.IP
	AddrPort netip.AddrPort
	Time     time.Time
	Card     types.Card
	Formats  []types.CardFormat
	Profile  types.TimeProfile
	Task     types.Task
	Pass     []uint32
	Readers  map[uint8]bool
}

func buildArgs(op model.Op, a *model.Args) builtArgs {
	var b builtArgs
	switch op {
	case model.SetAddress:
		for i := 0; i < 3; i++ {
			if a.IPs[i] != nil {
				b.IPs[i] = append(net.IP{}, a.IPs[i]...)
			}
		}
	case model.SetListener:
		if a.AddrPort != "" {
			b.AddrPort, _ = netip.ParseAddrPort(a.AddrPort)
		}
	case model.SetTime:
		c := a.Time
		var loc *time.Location
		if c.Zone != "" {
			loc, _ = time.LoadLocation(c.Zone)
		}
		if loc == nil {
			loc = time.FixedZone("", c.Offset)
		}
		b.Time = time.Unix(c.Unix, int64(c.Nsec)).In(loc)
	case model.PutCard:
		c := a.Card
		b.Card = types.Card{CardNumber: c.Number, From: toDate(c.From), To: toDate(c.To), PIN: types.PIN(c.PIN)}
		if c.Doors != nil {
			b.Card.Doors = map[uint8]uint8{}
			for k, v := range c.Doors {
				b.Card.Doors[k] = v
			}
		}
		if a.Formats != nil {
			b.Formats = []types.CardFormat{}
			for _, f := range a.Formats {
				b.Formats = append(b.Formats, types.CardFormat(f))
			}
		}
	case model.SetTimeProfile:
		p := a.Profile
		b.Profile = types.TimeProfile{ID: p.ID, LinkedProfileID: p.Linked, From: toDate(p.From), To: toDate(p.To), Weekdays: toWeekdays(p.Weekdays)}
		if p.Segments != nil {
			b.Profile.Segments = types.Segments{}
			for k, s := range p.Segments {
				b.Profile.Segments[k] = types.Segment{Start: types.NewHHmm(s.Start.H, s.Start.M), End: types.NewHHmm(s.End.H, s.End.M)}
			}
		}
	case model.AddTask:
		t := a.Task
		b.Task = types.Task{Task: types.TaskType(t.Type), Door: t.Door, From: toDate(t.From), To: toDate(t.To),
			Weekdays: toWeekdays(t.Weekdays), Start: types.NewHHmm(t.Start.H, t.Start.M), Cards: t.Cards}
	case model.SetDoorPasscodes:
		if a.Passcodes != nil {
			b.Pass = append([]uint32{}, a.Passcodes...)
		}
		// (the call itself passes a window of the harness's shared passcode table, see passWindow)
	case model.ActivateKeypads:
		if !a.NilMap {
			b.Readers = map[uint8]bool{}
			for k, v := range a.Readers {
				b.Readers[k] = v
			}
		}
	}
	return b
}

// call performs the API call of a step; it returns the raw result, its canonical observation and
// a description of any argument the library modified.
func (h *harness) call(st *Step) (val any, rec CallRec, argsChanged string) {
	u := h.clients[st.Client]
	a := &st.Args
	b := buildArgs(st.Op, a)
	want := buildArgs(st.Op, a)
	var err error

	func() {
		defer func() {
			if r := recover(); r != nil {
				err = fmt.Errorf("PANIC: %v", r)
				rec.Obs.Panic = fmt.Sprintf("%v | %s", r, shortStack())
			}
		}()
		switch st.Op {
		case model.GetDevices:
			val, err = u.GetDevices()
		case model.GetDevice:
			val, err = u.GetDevice(a.Serial)
		case model.SetAddress:
			val, err = u.SetAddress(a.Serial, b.IPs[0], b.IPs[1], b.IPs[2])
		case model.GetListener:
			var ap netip.AddrPort
			var iv uint8
			ap, iv, err = u.GetListener(a.Serial)
			val = [2]any{ap, iv}
		case model.SetListener:
			val, err = u.SetListener(a.Serial, b.AddrPort, a.U8)
		case model.GetTime:
			val, err = u.GetTime(a.Serial)
		case model.SetTime:
			val, err = u.SetTime(a.Serial, b.Time)
		case model.GetDoorControlState:
			val, err = u.GetDoorControlState(a.Serial, a.U8)
		case model.SetDoorControlState:
			val, err = u.SetDoorControlState(a.Serial, a.U8, types.ControlState(a.State), a.U8b)
		case model.GetStatus:
			val, err = u.GetStatus(a.Serial)
		case model.GetCards:
			val, err = u.GetCards(a.Serial)
		case model.GetCardByIndex:
			val, err = u.GetCardByIndex(a.Serial, a.U32)
		case model.GetCardByID:
			val, err = u.GetCardByID(a.Serial, a.U32)
		case model.PutCard:
			val, err = u.PutCard(a.Serial, b.Card, b.Formats...)
		case model.DeleteCard:
			val, err = u.DeleteCard(a.Serial, a.U32)
		case model.DeleteCards:
			val, err = u.DeleteCards(a.Serial)
		case model.GetTimeProfile:
			val, err = u.GetTimeProfile(a.Serial, a.U8)
		case model.SetTimeProfile:
			val, err = u.SetTimeProfile(a.Serial, b.Profile)
		case model.ClearTimeProfiles:
			val, err = u.ClearTimeProfiles(a.Serial)
		case model.ClearTaskList:
			val, err = u.ClearTaskList(a.Serial)
		case model.AddTask:
			val, err = u.AddTask(a.Serial, b.Task)
		case model.RefreshTaskList:
			val, err = u.RefreshTaskList(a.Serial)
		case model.RecordSpecialEvents:
			val, err = u.RecordSpecialEvents(a.Serial, a.Bool)
		case model.GetEvent:
			val, err = u.GetEvent(a.Serial, a.U32)
		case model.GetEventIndex:
			val, err = u.GetEventIndex(a.Serial)
		case model.SetEventIndex:
			val, err = u.SetEventIndex(a.Serial, a.U32)
		case model.SetDoorPasscodes:
			// an application keeps the passcodes of its doors in one flat table and passes windows of it:
			// the slice has spare capacity that belongs to the neighbouring doors
			win, check := h.passWindow(st, b.Pass)
			val, err = u.SetDoorPasscodes(a.Serial, a.U8, win...)
			if msg := check(); msg != "" {
				argsChanged = msg
			}
		case model.OpenDoor:
			val, err = u.OpenDoor(a.Serial, a.U8)
		case model.SetPCControl:
			val, err = u.SetPCControl(a.Serial, a.Bool)
		case model.SetInterlock:
			val, err = u.SetInterlock(a.Serial, types.Interlock(a.U8))
		case model.ActivateKeypads:
			val, err = u.ActivateKeypads(a.Serial, b.Readers)
		case model.RestoreDefaultParameters:
			val, err = u.RestoreDefaultParameters(a.Serial)
		}
	}()

	p := rec.Obs.Panic
	rec = observe(st.Op, val, err)
	rec.Obs.Panic = p

	if argsChanged == "" && !reflect.DeepEqual(b, want) {
		argsChanged = fmt.Sprintf("%v: arguments differ after the call: %+v vs %+v", st.Op, b, want)
	}
	return val, rec, argsChanged
}

// ---- observation ----------------------------------------------------------------------------

func obsDate(d types.Date) string {
	t := time.Time(d)
	if t.IsZero() {
		return ""
	}
	y, m, dd := t.Date()
	return fmt.Sprintf("%04d-%02d-%02d", y, int(m), dd)
}

func obsDateTime(d types.DateTime) string {
	t := time.Time(d)
	if t.IsZero() {
		return ""
	}
	y, m, dd := t.Date()
	hh, mi, ss := t.Clock()
	return fmt.Sprintf("%04d-%02d-%02d %02d:%02d:%02d", y, int(m), dd, hh, mi, ss)
}

func obsHHmm(h types.HHmm) string {
	v := reflect.ValueOf(h)
	hf, mf := v.FieldByName("hours"), v.FieldByName("minutes")
	if hf.IsValid() && mf.IsValid() && hf.CanInt() && mf.CanInt() {
		return fmt.Sprintf("%02d:%02d", hf.Int(), mf.Int())
	}
	return h.String()
}

func obsIP(ip net.IP) string {
	if v4 := ip.To4(); v4 != nil {
		return fmt.Sprintf("%d.%d.%d.%d", v4[0], v4[1], v4[2], v4[3])
	}
	return fmt.Sprintf("%x", []byte(ip))
}

func obsMAC(m types.MacAddress) string {
	var parts []string
	for _, b := range m {
		parts = append(parts, fmt.Sprintf("%02x", b))
	}
	return strings.Join(parts, ":")
}

func obsDevice(d *types.Device) map[string]string {
	return map[string]string{
		"name": d.Name, "serial": fmt.Sprint(uint32(d.SerialNumber)), "ip": obsIP(d.IpAddress), "mask": obsIP(d.SubnetMask),
		"gateway": obsIP(d.Gateway), "mac": obsMAC(d.MacAddress), "version": fmt.Sprint(uint16(d.Version)),
		"date": obsDate(d.Date), "address": d.Address.String(),
	}
}

func observeStatus(s *types.Status) map[string]string {
	if s == nil {
		return nil
	}
	f := map[string]string{
		"serial": fmt.Sprint(uint32(s.SerialNumber)), "syserror": fmt.Sprint(s.SystemError), "sysdatetime": obsDateTime(s.SystemDateTime),
		"seq": fmt.Sprint(s.SequenceId), "special": fmt.Sprint(s.SpecialInfo), "relay": fmt.Sprint(s.RelayState), "input": fmt.Sprint(s.InputState),
		"ev.index": fmt.Sprint(s.Event.Index), "ev.type": fmt.Sprint(s.Event.Type), "ev.granted": fmt.Sprint(s.Event.Granted),
		"ev.door": fmt.Sprint(s.Event.Door), "ev.direction": fmt.Sprint(s.Event.Direction), "ev.card": fmt.Sprint(s.Event.CardNumber),
		"ev.timestamp": obsDateTime(s.Event.Timestamp), "ev.reason": fmt.Sprint(s.Event.Reason),
	}
	for i := uint8(1); i <= 4; i++ {
		v, ok := s.DoorState[i]
		f[fmt.Sprintf("doorstate%d", i)] = fmt.Sprint(v)
		if !ok {
			f[fmt.Sprintf("doorstate%d", i)] = "missing"
		}
		b, ok := s.DoorButton[i]
		f[fmt.Sprintf("doorbutton%d", i)] = fmt.Sprint(b)
		if !ok {
			f[fmt.Sprintf("doorbutton%d", i)] = "missing"
		}
	}
	if len(s.DoorState) != 4 || len(s.DoorButton) != 4 {
		f["doorstate1"] = fmt.Sprintf("maps have %d/%d entries", len(s.DoorState), len(s.DoorButton))
	}
	return f
}

func isNilPtr(v any) bool {
	if v == nil {
		return true
	}
	rv := reflect.ValueOf(v)
	return rv.Kind() == reflect.Ptr && rv.IsNil()
}

func observe(op model.Op, val any, err error) CallRec {
	rec := CallRec{Op: op}
	if err != nil {
		rec.Obs.Err = err.Error()
		if rec.Obs.Err == "" {
			rec.Obs.Err = "(empty error)"
		}
		return rec
	}
	f := map[string]string{}
	rec.Obs.F = f
	switch v := val.(type) {
	case []types.Device:
		rec.IsL = true
		if v == nil {
			rec.Obs.Nil = true
		}
		for i := range v {
			rec.List = append(rec.List, obsDevice(&v[i]))
		}
	case *types.Device:
		if v == nil {
			rec.Obs.Nil = true
			break
		}
		rec.Obs.F = obsDevice(v)
	case *types.Result:
		if v == nil {
			rec.Obs.Nil = true
			break
		}
		f["serial"] = fmt.Sprint(uint32(v.SerialNumber))
		f["ok"] = fmt.Sprint(v.Succeeded)
	case [2]any:
		f["addrport"] = v[0].(netip.AddrPort).String()
		f["interval"] = fmt.Sprint(v[1].(uint8))
	case bool:
		f["ok"] = fmt.Sprint(v)
	case uint32:
		f["n"] = fmt.Sprint(v)
	case *types.Time:
		if v == nil {
			rec.Obs.Nil = true
			break
		}
		f["serial"] = fmt.Sprint(uint32(v.SerialNumber))
		f["datetime"] = obsDateTime(v.DateTime)
	case *types.DoorControlState:
		if v == nil {
			rec.Obs.Nil = true
			break
		}
		f["serial"] = fmt.Sprint(uint32(v.SerialNumber))
		f["door"] = fmt.Sprint(v.Door)
		f["state"] = fmt.Sprint(int(v.ControlState))
		f["delay"] = fmt.Sprint(v.Delay)
	case *types.Status:
		if v == nil {
			rec.Obs.Nil = true
			break
		}
		rec.Obs.F = observeStatus(v)
	case *types.Card:
		if v == nil {
			rec.Obs.Nil = true
			break
		}
		f["card"] = fmt.Sprint(v.CardNumber)
		f["from"] = obsDate(v.From)
		f["to"] = obsDate(v.To)
		for i := uint8(1); i <= 4; i++ {
			d, ok := v.Doors[i]
			f[fmt.Sprintf("door%d", i)] = fmt.Sprint(d)
			if !ok {
				f[fmt.Sprintf("door%d", i)] = "missing"
			}
		}
		if len(v.Doors) != 4 {
			f["door1"] = fmt.Sprintf("map has %d entries", len(v.Doors))
		}
		f["pin"] = fmt.Sprint(uint32(v.PIN))
	case *types.TimeProfile:
		if v == nil {
			rec.Obs.Nil = true
			break
		}
		f["id"] = fmt.Sprint(v.ID)
		f["linked"] = fmt.Sprint(v.LinkedProfileID)
		f["from"] = obsDate(v.From)
		f["to"] = obsDate(v.To)
		for name, wd := range map[string]time.Weekday{"mon": time.Monday, "tue": time.Tuesday, "wed": time.Wednesday, "thu": time.Thursday, "fri": time.Friday, "sat": time.Saturday, "sun": time.Sunday} {
			b, ok := v.Weekdays[wd]
			f[name] = fmt.Sprint(b)
			if !ok {
				f[name] = "missing"
			}
		}
		for i := uint8(1); i <= 3; i++ {
			s, ok := v.Segments[i]
			f[fmt.Sprintf("seg%dstart", i)] = obsHHmm(s.Start)
			f[fmt.Sprintf("seg%dend", i)] = obsHHmm(s.End)
			if !ok {
				f[fmt.Sprintf("seg%dstart", i)] = "missing"
			}
		}
	case *types.Event:
		if v == nil {
			rec.Obs.Nil = true
			break
		}
		f["serial"] = fmt.Sprint(uint32(v.SerialNumber))
		f["index"] = fmt.Sprint(v.Index)
		f["type"] = fmt.Sprint(v.Type)
		f["granted"] = fmt.Sprint(v.Granted)
		f["door"] = fmt.Sprint(v.Door)
		f["direction"] = fmt.Sprint(v.Direction)
		f["card"] = fmt.Sprint(v.CardNumber)
		f["timestamp"] = obsDateTime(v.Timestamp)
		f["reason"] = fmt.Sprint(v.Reason)
	case *types.EventIndex:
		if v == nil {
			rec.Obs.Nil = true
			break
		}
		f["serial"] = fmt.Sprint(uint32(v.SerialNumber))
		f["index"] = fmt.Sprint(v.Index)
	case *types.EventIndexResult:
		if v == nil {
			rec.Obs.Nil = true
			break
		}
		f["serial"] = fmt.Sprint(uint32(v.SerialNumber))
		f["index"] = fmt.Sprint(v.Index)
		f["changed"] = fmt.Sprint(v.Changed)
	default:
		if isNilPtr(val) {
			rec.Obs.Nil = true
		} else {
			f["?"] = fmt.Sprintf("%T", val)
		}
	}
	return rec
}

// ---- rendering (C04) ------------------------------------------------------------------------

type stringer interface{ String() string }

// render calls String() directly (fmt would swallow a panic) on the value and on every Stringer
// reachable through its exported fields, and encodes it as JSON. It returns the panic, if any.
func render(val any) (panicked string) {
	if isNilPtr(val) {
		return ""
	}
	defer func() {
		if r := recover(); r != nil {
			panicked = fmt.Sprintf("%T: %v | %s", val, r, shortStack())
		}
	}()
	walkStringers(reflect.ValueOf(val), 0)
	if _, ok := val.([2]any); !ok {
		json.Marshal(val)
	}
	return ""
}

func walkStringers(v reflect.Value, depth int) {
	if depth > 4 || !v.IsValid() {
		return
	}
	if v.CanInterface() {
		if v.Kind() != reflect.Ptr || !v.IsNil() {
			if s, ok := v.Interface().(stringer); ok {
				_ = s.String()
			}
		}
	}
	switch v.Kind() {
	case reflect.Ptr, reflect.Interface:
		if !v.IsNil() {
			walkStringers(v.Elem(), depth+1)
		}
	case reflect.Struct:
		if v.Type() == reflect.TypeOf(time.Time{}) || v.Type() == reflect.TypeOf(netip.AddrPort{}) || v.Type().PkgPath() == "time" {
			return
		}
		for i := 0; i < v.NumField(); i++ {
			if v.Type().Field(i).IsExported() {
				walkStringers(v.Field(i), depth+1)
			}
		}
	case reflect.Slice, reflect.Array:
		if v.Type().Elem().Kind() == reflect.Uint8 {
			return
		}
		for i := 0; i < v.Len() && i < 8; i++ {
			walkStringers(v.Index(i), depth+1)
		}
	}
}

// ---- C17 helpers ----------------------------------------------------------------------------

func mutateResult(val any) {
	switch v := val.(type) {
	case *types.Card:
		if v != nil {
			for k := range v.Doors {
				v.Doors[k] ^= 0xff
			}
			v.Doors[9] = 9
		}
	case *types.Status:
		if v != nil {
			for k := range v.DoorState {
				v.DoorState[k] = !v.DoorState[k]
			}
			for k := range v.DoorButton {
				v.DoorButton[k] = !v.DoorButton[k]
			}
		}
	case *types.Device:
		if v != nil {
			for i := range v.IpAddress {
				v.IpAddress[i] ^= 0xff
			}
			for i := range v.MacAddress {
				v.MacAddress[i] ^= 0xff
			}
			for i := range v.SubnetMask {
				v.SubnetMask[i] ^= 0xff
			}
			for i := range v.Gateway {
				v.Gateway[i] ^= 0xff
			}
		}
	case []types.Device:
		for j := range v {
			for i := range v[j].IpAddress {
				v[j].IpAddress[i] ^= 0xff
			}
			for i := range v[j].MacAddress {
				v[j].MacAddress[i] ^= 0xff
			}
		}
	case *types.TimeProfile:
		if v != nil {
			for k := range v.Weekdays {
				v.Weekdays[k] = !v.Weekdays[k]
			}
			for k := range v.Segments {
				delete(v.Segments, k)
			}
		}
	}
}

func cloneChecks(st *Step) string {
	// card
	if st.Args.Card != nil {
		b := buildArgs(model.PutCard, &st.Args)
		orig := buildArgs(model.PutCard, &st.Args)
		c := b.Card.Clone()
		for i := uint8(1); i <= 4; i++ {
			if c.Doors[i] != orig.Card.Doors[i] {
				return fmt.Sprintf("Card.Clone: door %d differs: %v vs %v", i, c.Doors[i], orig.Card.Doors[i])
			}
		}
		if c.CardNumber != orig.Card.CardNumber || c.PIN != orig.Card.PIN || obsDate(c.From) != obsDate(orig.Card.From) || obsDate(c.To) != obsDate(orig.Card.To) {
			return fmt.Sprintf("Card.Clone: clone differs: %v vs %v", c, orig.Card)
		}
		for k := range c.Doors {
			c.Doors[k] ^= 0xff
		}
		c.Doors[7] = 7
		if !reflect.DeepEqual(b.Card, orig.Card) {
			return fmt.Sprintf("Card.Clone shares storage with the original: %v vs %v", b.Card, orig.Card)
		}
	}
	// device
	// the variant is a function of the step's data only (tasks draw no random numbers)
	v := st.Args.Serial
	doors := [][]string{{"a", "b", "c", "d"}, {"a", "b", "c", "d"}, {}, {"only"}, {"1", "2", "3", "4", "5"}}[v%5]
	want := append([]string{}, doors...)
	zone := []*time.Location{time.UTC, nil, time.Local, time.FixedZone("X", 3600*5+1800)}[(v/5)%4]
	proto := []string{"udp", "tcp", "", "any", "TCP", "udp4", "junk"}[(v/20)%7]
	addr := []netip.AddrPort{netip.MustParseAddrPort("192.168.1.100:60000"), {}, netip.MustParseAddrPort("0.0.0.0:0"), netip.MustParseAddrPort("10.0.0.1:0"), netip.MustParseAddrPort("192.168.1.100:12345")}[(v/140)%5]
	d := uhppote.Device{Name: []string{"x", ""}[(v/700)%2], DeviceID: st.Args.Serial, Address: types.ControllerAddr{AddrPort: addr}, Doors: doors, TimeZone: zone, Protocol: proto}
	c := d.Clone()
	if c.Name != d.Name || c.DeviceID != d.DeviceID || c.Address != d.Address || c.Protocol != d.Protocol || c.TimeZone != d.TimeZone || len(c.Doors) != len(d.Doors) {
		return fmt.Sprintf("Device.Clone: clone differs: %+v vs %+v", c, d)
	}
	for i := range c.Doors {
		if c.Doors[i] != d.Doors[i] {
			return fmt.Sprintf("Device.Clone: clone differs: %+v vs %+v", c, d)
		}
		c.Doors[i] = "mutated"
	}
	if !reflect.DeepEqual(d.Doors, want) {
		return "Device.Clone shares the Doors slice with the original"
	}
	// an empty door list with spare capacity: what is appended to the clone's list must not show up behind the original's
	backing := []string{"p", "q", "r"}
	e := uhppote.Device{Name: "e", DeviceID: st.Args.Serial, Doors: backing[:0], TimeZone: zone, Protocol: proto}
	ec := e.Clone()
	ec.Doors = append(ec.Doors, "appended")
	if backing[0] != "p" || len(e.Doors) != 0 {
		return "Device.Clone shares the (empty) Doors slice's storage with the original"
	}
	return ""
}
