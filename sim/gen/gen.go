// Package gen draws scenarios: one seed, one scenario, explicit data.
package gen

import (
	"fmt"
	"math/rand"
	"net/netip"
	"time"

	"verif/sim/engine"
	"verif/sim/model"
	"verif/sim/vnet"
)

func pick[T any](r *rand.Rand, xs ...T) T { return xs[r.Intn(len(xs))] }

var timeouts = []time.Duration{20 * time.Millisecond, 100 * time.Millisecond, 250 * time.Millisecond, 500 * time.Millisecond, time.Second, 2500 * time.Millisecond, 5 * time.Second}

// ctl is a simulated controller the generator knows about.
type ctl struct {
	serial uint32
	ip     string
	port   uint16
	tcp    bool
}

type builder struct {
	r      *rand.Rand
	sc     *engine.Scenario
	prefix string
	ctls   []ctl
	prof   string
}

// ClientConf converts the scenario's client description into the reference's vocabulary.
func ClientConf(c *engine.ClientCfg) model.ClientConf {
	mc := model.ClientConf{Bind: c.Bind, Broadcast: c.Broadcast}
	for _, d := range c.Devices {
		p := d.Protocol
		if !d.Raw { // NewDevice: anything but "tcp" means udp
			if p != "tcp" {
				p = "udp"
			}
		}
		mc.Devices = append(mc.Devices, model.DeviceConf{ID: d.ID, Name: d.Name, Addr: d.Addr, Protocol: p})
	}
	return mc
}

type baseOpt struct {
	minCtl, maxCtl int
	maxClients     int
	fixedBind      int // 0: swarm, 1: never, 2: always
	directed       int // 0: swarm, 1: never (all broadcast), 2: always configured+usable
	extraEndpoints bool
	badDevAddrs    bool
}

func (b *builder) base(o baseOpt) {
	r, sc := b.r, b.sc
	b.prefix = pick(r, "192.168.1", "10.0.0", "172.16.254")
	sc.HostIP = fmt.Sprintf("%s.%d", b.prefix, 2+r.Intn(90))
	sc.Bcast = []string{b.prefix + ".255"}

	n := o.minCtl
	if o.maxCtl > o.minCtl {
		n += r.Intn(o.maxCtl - o.minCtl + 1)
	}
	seen := map[uint32]bool{}
	for i := 0; i < n; i++ {
		s := model.GenSerial(r)
		for seen[s] {
			s = model.GenSerial(r)
		}
		seen[s] = true
		c := ctl{serial: s, ip: fmt.Sprintf("%s.%d", b.prefix, 100+i), port: 60000, tcp: true}
		b.ctls = append(b.ctls, c)
		sc.Endpoints = append(sc.Endpoints,
			engine.Endpoint{Name: fmt.Sprintf("ctl%d/udp", i), Serial: s, IP: c.ip, Port: c.port, Proto: "udp"},
			engine.Endpoint{Name: fmt.Sprintf("ctl%d/tcp", i), Serial: s, IP: c.ip, Port: c.port, Proto: "tcp"})
		if o.extraEndpoints && r.Intn(2) == 0 {
			sc.Endpoints = append(sc.Endpoints,
				engine.Endpoint{Name: fmt.Sprintf("ctl%d/udp-alt", i), Serial: s, IP: c.ip, Port: 60001, Proto: "udp"},
				engine.Endpoint{Name: fmt.Sprintf("ctl%d/tcp-alt", i), Serial: s, IP: c.ip, Port: 60001, Proto: "tcp"})
		}
	}
	if o.extraEndpoints {
		sc.Endpoints = append(sc.Endpoints,
			engine.Endpoint{Name: "bystander/udp", IP: b.prefix + ".200", Port: 60000, Proto: "udp"},
			engine.Endpoint{Name: "bystander/udp-60005", IP: b.prefix + ".200", Port: 60005, Proto: "udp"},
			engine.Endpoint{Name: "bystander/tcp", IP: b.prefix + ".200", Port: 60000, Proto: "tcp"},
			engine.Endpoint{Name: "default-bcast-listener/udp", IP: b.prefix + ".201", Port: 60000, Proto: "udp"},
			engine.Endpoint{Name: "zero-addr-listener/udp", IP: "0.0.0.0", Port: 60000, Proto: "udp"},
			engine.Endpoint{Name: "loopback-listener/udp", IP: "127.0.0.1", Port: 60000, Proto: "udp"})
	}

	nc := 1
	if o.maxClients > 1 {
		nc += r.Intn(o.maxClients)
	}
	fixedPort := uint16(60001 + r.Intn(5))
	for i := 0; i < nc; i++ {
		c := engine.ClientCfg{Timeout: pick(r, timeouts...)}
		fixed := false
		switch o.fixedBind {
		case 0:
			fixed = r.Intn(3) == 0
		case 2:
			fixed = true
		}
		if fixed {
			c.Bind = fmt.Sprintf("%s:%d", pick(r, "0.0.0.0", sc.HostIP), fixedPort)
		} else {
			c.Bind = pick(r, "", "0.0.0.0:0", sc.HostIP+":0")
		}
		c.Broadcast = pick(r, "", b.prefix+".255:60000", b.prefix+".255:60000", "255.255.255.255:60000", b.prefix+".255:60005")
		c.Listen = fmt.Sprintf("%s:%d", pick(r, "0.0.0.0", sc.HostIP), 60010+i)
		if r.Intn(8) == 0 {
			c.NilDevs = true
		}
		for j, k := range b.ctls {
			cfg := false
			switch o.directed {
			case 0:
				cfg = r.Intn(2) == 0
			case 2:
				cfg = true
			}
			if !cfg || c.NilDevs {
				continue
			}
			d := engine.DeviceCfg{Name: fmt.Sprintf("ctl %d", j), ID: k.serial, Addr: fmt.Sprintf("%s:%d", k.ip, k.port), Doors: []string{"D1", "D2", "D3", "D4"}}
			d.Protocol = pick(r, "udp", "tcp", "udp", "tcp", "", "any", "junk")
			if o.directed == 0 || o.badDevAddrs {
				switch r.Intn(8) {
				case 0:
					d.Addr = ""
				case 1:
					d.Addr = "0.0.0.0:60000"
				case 2:
					d.Addr = k.ip + ":0"
				case 3:
					if o.extraEndpoints {
						d.Addr = k.ip + ":60001"
					}
				}
			}
			if r.Intn(6) == 0 {
				d.Raw = true
				if d.Protocol == "" || d.Protocol == "junk" {
					d.Protocol = pick(r, "udp", "tcp", "any", "")
				}
			}
			if r.Intn(10) == 0 {
				d.Name = ""
			}
			c.Devices = append(c.Devices, d)
		}
		sc.Clients = append(sc.Clients, c)
	}
}

// target picks the controller a call is addressed to.
func (b *builder) target() (serial uint32, known *ctl) {
	if len(b.ctls) > 0 && b.r.Intn(8) > 0 {
		c := &b.ctls[b.r.Intn(len(b.ctls))]
		return c.serial, c
	}
	for {
		s := model.GenSerial(b.r)
		dup := false
		for _, c := range b.ctls {
			if c.serial == s {
				dup = true
			}
		}
		if !dup {
			return s, nil
		}
	}
}

// delay draws a boundary-biased delay relative to the timeout T.
func (b *builder) delay(T time.Duration) time.Duration {
	r := b.r
	switch r.Intn(10) {
	case 0:
		return 0
	case 1:
		return 1
	case 2:
		return T / 2
	case 3:
		return T - 1
	case 4:
		return T
	case 5:
		return T + 1
	case 6:
		return 2 * T
	}
	return time.Duration(r.Int63n(int64(T)))
}

// early draws a delay strictly below T, biased to the edges.
func (b *builder) early(T time.Duration) time.Duration {
	r := b.r
	switch r.Intn(6) {
	case 0:
		return 0
	case 1:
		return 1
	case 2:
		return T - 1
	case 3:
		return T / 2
	}
	return time.Duration(r.Int63n(int64(T)))
}

// route of a call, in the reference's terms.
func (b *builder) route(client int, op model.Op, serial uint32) model.Route {
	return model.RouteOf(ClientConf(&b.sc.Clients[client]), op, serial)
}

// replyFrom is the address a genuine reply of the addressed controller comes from.
func (b *builder) replyFrom(rt model.Route, known *ctl) string {
	if rt.Path != "broadcast" {
		return rt.Dst.String()
	}
	if known != nil {
		return fmt.Sprintf("%s:%d", known.ip, known.port)
	}
	return b.prefix + ".250:60000"
}

func (b *builder) otherSerial(s uint32) uint32 {
	for _, c := range b.ctls {
		if c.serial != s && b.r.Intn(2) == 0 {
			return c.serial
		}
	}
	v := s ^ (uint32(1) << uint(b.r.Intn(32)))
	if v == 0 {
		v = s + 1
	}
	return v
}

var classes = []string{"valid", "wronglen", "wrongserial", "serial0", "wrongfn", "wrongproto", "proto19", "malformed", "garbage"}

// datagram builds one datagram of a class for the call (op, a) addressed to serial S.
func (b *builder) datagram(class string, op model.Op, a *model.Args, S uint32) []byte {
	r := b.r
	valid := func() []byte {
		return model.GenReply(r, op, a, S, model.ReplyOpts{Junk: r.Intn(4) == 0})
	}
	switch class {
	case "valid":
		return valid()
	case "valid-ood":
		return model.GenReply(r, op, a, S, model.ReplyOpts{OOD: true, Junk: r.Intn(4) == 0})
	case "wronglen":
		d := valid()
		var n int
		switch r.Intn(6) {
		case 0:
			n = pick(r, 0, 1, 7, 8, 63, 65, 128, 1024, 2047, 2048, 2049, 4096)
		case 1:
			n = r.Intn(64)
		default:
			n = 65 + r.Intn(960)
		}
		if n <= 64 {
			return d[:n]
		}
		ext := make([]byte, n)
		copy(ext, d)
		for i := 64; i < n; i++ {
			ext[i] = byte(r.Intn(256))
		}
		return ext
	case "wrongserial":
		d := model.GenReply(r, op, a, b.otherSerial(S), model.ReplyOpts{})
		return d
	case "serial0":
		return model.GenReply(r, op, a, 0, model.ReplyOpts{})
	case "wrongfn":
		d := valid()
		for {
			c := byte(r.Intn(256))
			if r.Intn(2) == 0 {
				c = model.Op(r.Intn(int(model.NumOps))).Code()
			}
			if c != op.Code() {
				d[1] = c
				break
			}
		}
		return d
	case "wrongproto":
		d := valid()
		for {
			c := byte(r.Intn(256))
			if r.Intn(3) == 0 {
				c = pick(r, byte(0x00), 0x16, 0x18, 0x19, 0x71, 0xff)
			}
			if c != 0x17 && !(c == 0x19 && op.Code() == 0x20) {
				d[0] = c
				break
			}
		}
		return d
	case "proto19":
		d := valid()
		d[0] = 0x19
		return d
	case "malformed":
		if !model.HasHardField(op) {
			return valid()
		}
		return model.GenReply(r, op, a, S, model.ReplyOpts{Hard: true})
	case "garbage":
		n := r.Intn(200)
		if r.Intn(4) == 0 {
			n = r.Intn(2200)
		}
		d := make([]byte, n)
		r.Read(d)
		if n >= 8 && r.Intn(2) == 0 { // a plausible header in front of noise
			d[0], d[1] = 0x17, op.Code()
			d[4], d[5], d[6], d[7] = byte(S), byte(S>>8), byte(S>>16), byte(S>>24)
		}
		return d
	}
	return nil
}

// callStep creates a call with a plan in which the addressed controller answers once, validly, after 'after'.
func (b *builder) callStep(client int, op model.Op, a model.Args, known *ctl, after time.Duration, o model.ReplyOpts) engine.Step {
	st := engine.Step{Kind: "call", Client: client, Op: op, Args: a}
	rt := b.route(client, op, a.Serial)
	if rt.Path == "tcp" {
		st.Plan.TCP = "accept"
	}
	if op.HasReply() && op != model.GetDevices && model.Validate(op, &a) == "" {
		d := model.GenReply(b.r, op, &a, a.Serial, o)
		st.Plan.Emits = append(st.Plan.Emits, b.emit(rt, known, after, d, "valid"))
	}
	return st
}

func (b *builder) emit(rt model.Route, known *ctl, after time.Duration, data []byte, class string) engine.Emit {
	e := engine.Emit{After: after, Data: data, Class: class}
	if rt.Path == "tcp" {
		e.Via = "tcp"
	} else {
		e.Via = "udp"
		e.From = b.replyFrom(rt, known)
	}
	return e
}

func (b *builder) anyOp() model.Op {
	return model.Op(b.r.Intn(int(model.NumOps)))
}

func (b *builder) anyCallOp() model.Op { // not discovery
	return model.Op(1 + b.r.Intn(int(model.NumOps)-1))
}

// noise adds arbitrary network behaviour to a plan (used where the property does not care what the network does).
func (b *builder) noise(st *engine.Step, T time.Duration) {
	r := b.r
	rt := b.route(st.Client, st.Op, st.Args.Serial)
	switch r.Intn(5) {
	case 0: // silence
		st.Plan.Emits = nil
	case 1: // strays ahead of the reply
		n := 1 + r.Intn(3)
		var pre []engine.Emit
		for i := 0; i < n; i++ {
			cl := pick(r, classes...)
			pre = append(pre, b.emit(rt, nil, b.delay(T), b.datagram(cl, st.Op, &st.Args, st.Args.Serial), cl))
		}
		st.Plan.Emits = append(pre, st.Plan.Emits...)
	case 2:
		if rt.Path == "tcp" {
			st.Plan.TCP = pick(r, "refuse", "blackhole", "accept")
		}
	}
}

// Generate draws the scenario of a profile for a seed.
func Generate(profile string, seed int64) *engine.Scenario {
	r := rand.New(rand.NewSource(seed*2654435761 + int64(len(profile))*97 + int64(profile[len(profile)-1])))
	sc := &engine.Scenario{Seed: seed, Profile: profile}
	b := &builder{r: r, sc: sc, prof: profile}
	switch profile {
	case "C01":
		genC01(b)
	case "C02":
		genC02(b)
	case "C03":
		genC03(b)
	case "C06":
		genC06(b)
	case "C07":
		genC07(b)
	default:
		panic("gen: unknown profile " + profile)
	}
	return sc
}

// ---- C01: requests on the wire -----------------------------------------------------------------

func genC01(b *builder) {
	r := b.r
	b.base(baseOpt{minCtl: 1, maxCtl: 4, maxClients: 3})
	nt := 1 + r.Intn(4)
	for t := 0; t < nt; t++ {
		tk := engine.Task{Start: time.Duration(r.Intn(3)) * 10 * time.Millisecond}
		ns := 1 + r.Intn(5)
		for s := 0; s < ns; s++ {
			client := r.Intn(len(b.sc.Clients))
			T := b.sc.Clients[client].Timeout
			op := b.anyOp()
			serial, known := b.target()
			a := model.GenArgs(r, op, serial)
			st := b.callStep(client, op, a, known, b.early(T), model.ReplyOpts{})
			b.noise(&st, T)
			tk.Steps = append(tk.Steps, st)
		}
		b.sc.Tasks = append(b.sc.Tasks, tk)
	}
}

// ---- C02: replies -------------------------------------------------------------------------------

func genC02(b *builder) {
	r := b.r
	b.base(baseOpt{minCtl: 1, maxCtl: 3, maxClients: 2})
	tk := engine.Task{}
	ns := 1 + r.Intn(6)
	for s := 0; s < ns; s++ {
		client := r.Intn(len(b.sc.Clients))
		T := b.sc.Clients[client].Timeout
		op := b.anyCallOp()
		for !op.HasReply() {
			op = b.anyCallOp()
		}
		serial, known := b.target()
		a := model.GenArgs(r, op, serial)
		o := model.ReplyOpts{Junk: r.Intn(3) == 0, OOD: r.Intn(5) == 0}
		if op == model.GetStatus && r.Intn(6) == 0 {
			o.V19 = true
		}
		st := b.callStep(client, op, a, known, b.early(T), o)
		tk.Steps = append(tk.Steps, st)
	}
	b.sc.Tasks = append(b.sc.Tasks, tk)
}

// ---- C03: acceptance -----------------------------------------------------------------------------

func genC03(b *builder) {
	r := b.r
	b.base(baseOpt{minCtl: 1, maxCtl: 4, maxClients: 2})
	nt := 1
	if r.Intn(4) == 0 {
		nt = 2
	}
	for t := 0; t < nt; t++ {
		tk := engine.Task{}
		ns := 1 + r.Intn(3)
		for s := 0; s < ns; s++ {
			client := r.Intn(len(b.sc.Clients))
			T := b.sc.Clients[client].Timeout
			op := b.anyCallOp()
			serial, known := b.target()
			a := model.GenArgs(r, op, serial)
			st := engine.Step{Kind: "call", Client: client, Op: op, Args: a}
			rt := b.route(client, op, serial)
			if rt.Path == "tcp" {
				st.Plan.TCP = "accept"
			}
			n := r.Intn(5)
			if r.Intn(3) == 0 {
				n = 1 + r.Intn(2)
			}
			var at time.Duration
			for i := 0; i < n; i++ {
				cl := pick(r, classes...)
				if r.Intn(3) == 0 {
					cl = "valid"
				}
				d := b.datagram(cl, op, &a, serial)
				// arrival order = emission order unless delays say otherwise
				if r.Intn(4) == 0 {
					at = b.delay(T)
				} else {
					at += time.Duration(r.Int63n(int64(T)/4 + 1))
				}
				e := b.emit(rt, known, at, d, cl)
				if rt.Path != "tcp" && r.Intn(6) == 0 {
					// from somebody else: on the broadcast path anyone may answer; a connected socket filters it
					e.From = fmt.Sprintf("%s.%d:%d", b.prefix, 200+r.Intn(50), pick(r, 60000, 60000, 12345))
				}
				st.Plan.Emits = append(st.Plan.Emits, e)
			}
			tk.Steps = append(tk.Steps, st)
		}
		b.sc.Tasks = append(b.sc.Tasks, tk)
	}
}

// ---- C06: routing ---------------------------------------------------------------------------------

func genC06(b *builder) {
	r := b.r
	b.base(baseOpt{minCtl: 1, maxCtl: 4, maxClients: 3, extraEndpoints: true, badDevAddrs: true})
	tk := engine.Task{}
	ns := 1 + r.Intn(6)
	for s := 0; s < ns; s++ {
		client := r.Intn(len(b.sc.Clients))
		T := b.sc.Clients[client].Timeout
		op := b.anyOp()
		serial, known := b.target()
		a := model.GenArgs(r, op, serial)
		st := b.callStep(client, op, a, known, b.early(T), model.ReplyOpts{})
		if r.Intn(4) == 0 {
			b.noise(&st, T)
		}
		tk.Steps = append(tk.Steps, st)
	}
	b.sc.Tasks = append(b.sc.Tasks, tk)
}

// ---- C07: validation ------------------------------------------------------------------------------

// invalidate pushes the arguments of op across one of the stated boundaries (or leaves them just inside).
func invalidate(r *rand.Rand, op model.Op, a *model.Args) {
	if r.Intn(6) == 0 {
		a.Serial = 0
		return
	}
	switch op {
	case model.PutCard:
		c := a.Card
		switch r.Intn(9) {
		case 0:
			c.Number = pick(r, uint32(0), 0xffffffff, 0x00ffffff)
		case 1:
			c.Number = pick(r, uint32(1), 0xfffffffe, 0x00fffffe, 0x01000000, 0x00ffffff+1)
		case 2:
			c.PIN = pick(r, uint32(999999), 1000000, 1000001, 0xffffffff, 16777215, 16777216)
		case 3, 4, 5: // Wiegand-26 boundaries
			a.Formats = pick(r, []int{1}, []int{1}, []int{1, 1}, []int{1, 0}, []int{0, 1}, []int{2}, []int{2, 1}, []int{7}, []int{})
			fac := pick(r, uint32(0), 1, 254, 255, 256, 257, 999, 1000, 10000, 42949)
			num := pick(r, uint32(0), 1, 65534, 65535, 65536, 65537, 99999, 12345)
			if r.Intn(3) == 0 {
				fac, num = uint32(r.Intn(300)), uint32(r.Intn(100000))
			}
			c.Number = fac*100000 + num
			if r.Intn(5) == 0 {
				c.Number = pick(r, uint32(100012345), 1000012345, 255065535, 4294967295-1, 2556553500, 300000000, 25565535, 25565536, 25600000)
			}
			if c.Number == 0 {
				c.Number = 1
			}
		}
	case model.SetListener:
		a.AddrPort = pick(r, "", "0.0.0.0:0", "0.0.0.0:60001", "192.168.1.100:0", "192.168.1.100:1", "192.168.1.100:65535",
			"[::1]:60001", "[::ffff:192.168.1.100]:60001", "[fe80::1%eth0]:60001", "[::]:0", "[::]:60001", "255.255.255.255:60001", "[2001:db8::1]:1", "[::ffff:0.0.0.0]:0")
	case model.SetAddress:
		bad := [][]byte{nil, {}, {1, 2, 3}, {1, 2, 3, 4, 5}, {0x20, 0x01, 0x0d, 0xb8, 0, 0, 0, 0, 0, 0, 0, 0, 0, 0, 0, 1},
			{0, 0, 0, 0, 0, 0, 0, 0, 0, 0, 0, 0, 0, 0, 0, 1}, {0, 0, 0, 0, 0, 0, 0, 0, 0, 0, 0xff, 0xff, 10, 0, 0, 1}, {10, 0, 0, 1}}
		a.IPs[r.Intn(3)] = append([]byte(nil), bad[r.Intn(len(bad))]...)
		if r.Intn(4) == 0 {
			a.IPs[r.Intn(3)] = nil
		}
	case model.SetDoorPasscodes:
		a.U8 = pick(r, uint8(0), 1, 4, 5, 255, 128)
		a.Passcodes = nil
		n := r.Intn(7)
		for i := 0; i < n; i++ {
			a.Passcodes = append(a.Passcodes, pick(r, uint32(0), 1, 999999, 1000000, 1000001, 0xffffffff, 123456))
		}
	case model.SetTimeProfile:
		p := a.Profile
		switch r.Intn(8) {
		case 0:
			p.From.Zero = true
		case 1:
			p.To.Zero = true
		case 2:
			delete(p.Segments, uint8(1+r.Intn(3)))
		case 3:
			p.Segments = nil
		case 4, 5: // end before / equal / after start by a minute
			k := uint8(1 + r.Intn(3))
			s := model.GenHHmm(r)
			e := s
			switch r.Intn(4) {
			case 0:
				if e.M > 0 {
					e.M--
				} else if e.H > 0 {
					e.H, e.M = e.H-1, 59
				}
			case 1:
				if e.H > 0 {
					e.H--
					e.M = 59
				}
			case 2:
				if e.H < 24 && e.M < 59 {
					e.M++
				}
			}
			if p.Segments == nil {
				p.Segments = map[uint8]model.Segment{1: {}, 2: {}, 3: {}}
			}
			p.Segments[k] = model.Segment{Start: s, End: e}
		case 6:
			p.Weekdays = nil
		}
	}
}

func genC07(b *builder) {
	r := b.r
	b.base(baseOpt{minCtl: 1, maxCtl: 3, maxClients: 2})
	tk := engine.Task{}
	ns := 1 + r.Intn(6)
	validated := []model.Op{model.PutCard, model.PutCard, model.PutCard, model.SetListener, model.SetAddress, model.SetDoorPasscodes, model.SetTimeProfile}
	for s := 0; s < ns; s++ {
		client := r.Intn(len(b.sc.Clients))
		T := b.sc.Clients[client].Timeout
		op := b.anyCallOp()
		if r.Intn(3) > 0 {
			op = pick(r, validated...)
		}
		serial, known := b.target()
		a := model.GenArgs(r, op, serial)
		invalidate(r, op, &a)
		st := b.callStep(client, op, a, known, b.early(T), model.ReplyOpts{})
		tk.Steps = append(tk.Steps, st)
	}
	b.sc.Tasks = append(b.sc.Tasks, tk)
}

var _ = netip.AddrPort{}
var _ = vnet.Fault{}
