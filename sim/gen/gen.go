// Package gen draws scenarios: one seed, one scenario, explicit data.
package gen

import (
	"strings"
	"fmt"
	"math/rand"
	"net/netip"
	"time"

	"verif/sim/engine"
	"verif/sim/model"
	"verif/sim/vnet"
	"verif/sim/zones"
)

func pick[T any](r *rand.Rand, xs ...T) T { return xs[r.Intn(len(xs))] }

var timeouts = []time.Duration{20 * time.Millisecond, 100 * time.Millisecond, 250 * time.Millisecond, 500 * time.Millisecond, time.Second, 2500 * time.Millisecond, 5 * time.Second}

// ctl is a simulated controller the generator knows about.
type ctl struct {
	serial uint32
	ip     string
	port   uint16
	tcp    bool
	tz     string // IANA zone the controller is configured with ("" = none given)
}

// Thorough makes half of the scenarios twice as large (set by the worker from VERIF_TIER).
var Thorough bool

// n draws a size: 0..k-1, from a range twice as wide in scaled-up scenarios.
func (b *builder) n(k int) int { return b.r.Intn(k * b.scale) }

type builder struct {
	zone   *zoneGen
	scale  int
	r      *rand.Rand
	sc     *engine.Scenario
	prefix string
	ctls   []ctl
	prof   string
}

// ClientConf converts the scenario's client description into the reference's vocabulary.
func ClientConf(c *engine.ClientCfg) model.ClientConf {
	mc := model.ClientConf{Bind: c.Bind, Broadcast: c.Broadcast}
	for _, d := range c.Devices {
		p := d.Protocol
		if !d.Raw { // NewDevice: anything but "tcp" means udp
			if p != "tcp" {
				p = "udp"
			}
		}
		mc.Devices = append(mc.Devices, model.DeviceConf{ID: d.ID, Name: d.Name, Addr: d.Addr, Protocol: p})
	}
	return mc
}

type baseOpt struct {
	minCtl, maxCtl int
	maxClients     int
	fixedBind      int // 0: swarm, 1: never, 2: always
	directed       int // 0: swarm, 1: never (all broadcast), 2: always configured+usable
	extraEndpoints bool
	badDevAddrs    bool
}

func (b *builder) base(o baseOpt) {
	r, sc := b.r, b.sc
	b.prefix = pick(r, "192.168.1", "10.0.0", "172.16.254")
	sc.HostIP = fmt.Sprintf("%s.%d", b.prefix, 2+r.Intn(90))
	sc.Bcast = []string{b.prefix + ".255"}
	if r.Intn(2) == 0 {
		// multi-homed client host: the second address is never the one the kernel would pick by itself
		sc.HostIP2 = fmt.Sprintf("%s.%d", b.prefix, 93+r.Intn(6))
	}

	n := o.minCtl
	if o.maxCtl > o.minCtl {
		n += r.Intn(o.maxCtl - o.minCtl + 1)
	}
	seen := map[uint32]bool{}
	for i := 0; i < n; i++ {
		s := model.GenSerial(r)
		for seen[s] {
			s = model.GenSerial(r)
		}
		seen[s] = true
		c := ctl{serial: s, ip: fmt.Sprintf("%s.%d", b.prefix, 100+i), port: 60000, tcp: true}
		if r.Intn(4) == 0 {
			// the configuration may name the zone the controller lives in: a label as far as the protocol goes
			c.tz = pick(r, "America/New_York", "Europe/Berlin", "Australia/Lord_Howe", "America/Santiago", "Asia/Tokyo", "UTC", "Pacific/Apia", "America/St_Johns", "Etc/GMT-14")
			if r.Intn(2) == 0 {
				c.tz = pick(r, zones.Names...)
			}
			if zones.Load(c.tz) == nil {
				c.tz = ""
			}
		}
		b.ctls = append(b.ctls, c)
		sc.Endpoints = append(sc.Endpoints,
			engine.Endpoint{Name: fmt.Sprintf("ctl%d/udp", i), Serial: s, IP: c.ip, Port: c.port, Proto: "udp"},
			engine.Endpoint{Name: fmt.Sprintf("ctl%d/tcp", i), Serial: s, IP: c.ip, Port: c.port, Proto: "tcp"})
		if o.extraEndpoints && r.Intn(2) == 0 {
			sc.Endpoints = append(sc.Endpoints,
				engine.Endpoint{Name: fmt.Sprintf("ctl%d/udp-alt", i), Serial: s, IP: c.ip, Port: 60001, Proto: "udp"},
				engine.Endpoint{Name: fmt.Sprintf("ctl%d/tcp-alt", i), Serial: s, IP: c.ip, Port: 60001, Proto: "tcp"})
		}
	}
	if o.extraEndpoints {
		sc.Endpoints = append(sc.Endpoints,
			engine.Endpoint{Name: "bystander/udp", IP: b.prefix + ".200", Port: 60000, Proto: "udp"},
			engine.Endpoint{Name: "bystander/udp-60005", IP: b.prefix + ".200", Port: 60005, Proto: "udp"},
			engine.Endpoint{Name: "bystander/tcp", IP: b.prefix + ".200", Port: 60000, Proto: "tcp"},
			engine.Endpoint{Name: "default-bcast-listener/udp", IP: b.prefix + ".201", Port: 60000, Proto: "udp"},
			engine.Endpoint{Name: "zero-addr-listener/udp", IP: "0.0.0.0", Port: 60000, Proto: "udp"},
			engine.Endpoint{Name: "loopback-listener/udp", IP: "127.0.0.1", Port: 60000, Proto: "udp"})
	}

	debug := r.Intn(10) == 0 // the debug flag dumps every message: more code on the send and receive paths
	nc := 1
	if o.maxClients > 1 {
		nc += r.Intn(o.maxClients)
	}
	fixedPort := uint16(60001 + r.Intn(5))
	for i := 0; i < nc; i++ {
		c := engine.ClientCfg{Timeout: pick(r, timeouts...)}
		fixed := false
		switch o.fixedBind {
		case 0:
			fixed = r.Intn(3) == 0
		case 2:
			fixed = true
		}
		if fixed {
			c.Bind = fmt.Sprintf("%s:%d", pick(r, "0.0.0.0", sc.HostIP), fixedPort)
		} else {
			c.Bind = pick(r, "", "0.0.0.0:0", sc.HostIP+":0")
		}
		if sc.HostIP2 != "" && r.Intn(3) == 0 {
			if ap, err := netip.ParseAddrPort(c.Bind); err == nil {
				c.Bind = fmt.Sprintf("%s:%d", sc.HostIP2, ap.Port())
			} else {
				c.Bind = sc.HostIP2 + ":0"
			}
		}
		c.Broadcast = pick(r, "", b.prefix+".255:60000", b.prefix+".255:60000", "255.255.255.255:60000", b.prefix+".255:60005")
		if c.Broadcast != "" && r.Intn(12) == 0 {
			// the same address as a program gets it from a net.UDPAddr: in its IPv4-mapped form
			if ap, err := netip.ParseAddrPort(c.Broadcast); err == nil {
				c.Broadcast = netip.AddrPortFrom(netip.AddrFrom16(ap.Addr().As16()), ap.Port()).String()
			}
		}
		c.Listen = fmt.Sprintf("%s:%d", pick(r, "0.0.0.0", sc.HostIP), 60010+i)
		if sc.HostIP2 != "" && r.Intn(4) == 0 {
			c.Listen = fmt.Sprintf("%s:%d", sc.HostIP2, 60010+i) // events come in on the host's other address: no business of outgoing requests
		}
		c.Debug = debug
		if r.Intn(8) == 0 {
			c.NilDevs = true
		}
		for j, k := range b.ctls {
			cfg := false
			switch o.directed {
			case 0:
				cfg = r.Intn(3) > 0
			case 2:
				cfg = true
			}
			if !cfg || c.NilDevs {
				continue
			}
			d := engine.DeviceCfg{Name: fmt.Sprintf("ctl %d", j), ID: k.serial, Addr: fmt.Sprintf("%s:%d", k.ip, k.port), Doors: []string{"D1", "D2", "D3", "D4"}, TZ: k.tz}
			d.Protocol = pick(r, "udp", "tcp", "udp", "tcp", "tcp", "", "any", "junk")
			if o.directed == 0 || o.badDevAddrs {
				switch r.Intn(8) {
				case 0:
					d.Addr = ""
				case 1:
					d.Addr = pick(r, "0.0.0.0:60000", "0.0.0.0:60000", "0.0.0.0:60001", "0.0.0.0:12345") // no address, whatever the port says
				case 2:
					d.Addr = k.ip + ":0"
				case 3:
					if o.extraEndpoints {
						d.Addr = k.ip + ":60001"
					}
				case 4:
					if ap, err := netip.ParseAddrPort(c.Broadcast); err == nil && r.Intn(2) == 0 {
						// listed at the very address the client broadcasts to: an address like any other
						d.Addr = netip.AddrPortFrom(ap.Addr().Unmap(), ap.Port()).String()
					}
				}
			}
			if r.Intn(6) == 0 {
				d.Raw = true
				d.NilTZ = r.Intn(3) == 0 // a Device literal that says nothing about a time zone
				if d.Protocol == "" || d.Protocol == "junk" {
					d.Protocol = pick(r, "udp", "tcp", "any", "")
				}
			}
			switch r.Intn(12) {
			case 0:
				d.Name = ""
			case 1:
				// a name is a label: whatever the operator typed comes back as typed
				d.Name = pick(r, " Side door\t", "  ", "\tlab ", "Zugangskontrolle Gebäude 7 - Nordflügel, Erdgeschoss, Tür 3 (Lieferanten)",
					"东门禁控制器东门禁控制器东门禁控制器", "Контроллер главного входа корпус", "a\x00b", "name with a very long tail "+strings.Repeat("x", 200))
			}
			if r.Intn(3) == 0 {
				// door names are labels: how many there are changes nothing about what a call does
				d.Doors = pick(r, nil, []string{"only"}, []string{"front", "back"}, []string{"a", "b", "c"}, []string{"1", "2", "3", "4", "5"}, []string{"1", "2", "3", "4", "5", "6", "7", "8"})
			}
			c.Devices = append(c.Devices, d)
			if o.badDevAddrs && r.Intn(8) == 0 {
				// the same controller listed twice: the later entry is the one that counts
				d2 := d
				if r.Intn(3) > 0 {
					d2.Name = d.Name + " (again)"
					d2.Addr = pick(r, "", fmt.Sprintf("%s:%d", k.ip, k.port), b.prefix+".200:60000", k.ip+":60001")
					d2.Protocol = pick(r, "udp", "tcp")
				} // else: the very same entry a second time
				c.Devices = append(c.Devices, d2)
			}
		}
		sc.Clients = append(sc.Clients, c)
	}
}

// args draws the arguments of a call and, now and then, makes them coincide with something the client already
// knows from its configuration (the address a controller is listed at, the client's own listen address): a value
// that means nothing special to the protocol.
func (b *builder) args(op model.Op, serial uint32, known *ctl) model.Args {
	r := b.r
	a := model.GenArgs(r, op, serial)
	ip4 := func(s string) []byte {
		if ad, err := netip.ParseAddr(s); err == nil && ad.Is4() {
			v := ad.As4()
			return v[:]
		}
		return nil
	}
	switch op {
	case model.SetAddress:
		if known != nil && r.Intn(4) == 0 {
			if v := ip4(known.ip); v != nil {
				a.IPs[0] = v // the address the controller is configured at
			}
		} else if r.Intn(10) == 0 {
			if v := ip4(b.sc.HostIP); v != nil {
				a.IPs[0] = v
			}
		}
	case model.SetListener:
		if r.Intn(6) == 0 && len(b.sc.Clients) > 0 {
			if ap, err := netip.ParseAddrPort(b.sc.Clients[0].Listen); err == nil && r.Intn(4) == 0 {
				a.AddrPort = fmt.Sprintf("%s:0", ap.Addr()) // the client's own listen address, no port
			} else if err == nil && r.Intn(3) == 0 {
				a.AddrPort = fmt.Sprintf("0.0.0.0:%d", ap.Port()) // no address, the client's own listen port
			} else if err == nil && !ap.Addr().IsUnspecified() {
				a.AddrPort = ap.String() // the client's own listen address
			} else if err == nil {
				a.AddrPort = fmt.Sprintf("%s:%d", b.sc.HostIP, ap.Port())
			}
		}
	}
	return a
}

// target picks the controller a call is addressed to.
func (b *builder) target() (serial uint32, known *ctl) {
	if len(b.ctls) > 0 && b.r.Intn(8) > 0 {
		c := &b.ctls[b.r.Intn(len(b.ctls))]
		return c.serial, c
	}
	for {
		s := model.GenSerial(b.r)
		dup := false
		for _, c := range b.ctls {
			if c.serial == s {
				dup = true
			}
		}
		if !dup {
			return s, nil
		}
	}
}

// delay draws a boundary-biased delay relative to the timeout T.
func (b *builder) delay(T time.Duration) time.Duration {
	r := b.r
	switch r.Intn(10) {
	case 0:
		return 0
	case 1:
		return 1
	case 2:
		return T / 2
	case 3:
		return T - 1
	case 4:
		return T
	case 5:
		return T + 1
	case 6:
		return 2 * T
	}
	return time.Duration(r.Int63n(int64(T)))
}

// early draws a delay strictly below T, biased to the edges.
func (b *builder) early(T time.Duration) time.Duration {
	r := b.r
	switch r.Intn(6) {
	case 0:
		return 0
	case 1:
		return 1
	case 2:
		return T - 1
	case 3:
		return T / 2
	}
	return time.Duration(r.Int63n(int64(T)))
}

// route of a call, in the reference's terms.
func (b *builder) route(client int, op model.Op, serial uint32) model.Route {
	return model.RouteOf(ClientConf(&b.sc.Clients[client]), op, serial)
}

// replyFrom is the address a genuine reply of the addressed controller comes from.
func (b *builder) replyFrom(rt model.Route, known *ctl) string {
	if rt.Path != "broadcast" {
		return rt.Dst.String()
	}
	if known != nil {
		return fmt.Sprintf("%s:%d", known.ip, known.port)
	}
	return b.prefix + ".250:60000"
}

func (b *builder) otherSerial(s uint32) uint32 {
	for _, c := range b.ctls {
		if c.serial != s && b.r.Intn(2) == 0 {
			return c.serial
		}
	}
	v := s ^ (uint32(1) << uint(b.r.Intn(32)))
	if v == 0 {
		v = s + 1
	}
	return v
}

var classes = []string{"valid", "wronglen", "wrongserial", "serial0", "wrongfn", "wrongproto", "proto19", "malformed", "garbage"}

// classes of C03: the nine of the statement plus replies whose malformed field is an impossible value rather than an undecodable one
var classes03 = append(append([]string{}, classes...), "valid-ood", "echo")

// NumClasses03 is the number of datagram classes the C03 profile draws from (evidence: size of the class-sequence space).
var NumClasses03 = len(classes03)

// datagram builds one datagram of a class for the call (op, a) addressed to serial S.
func (b *builder) datagram(class string, op model.Op, a *model.Args, S uint32) []byte {
	r := b.r
	valid := func() []byte {
		return model.GenReply(r, op, a, S, model.ReplyOpts{Junk: r.Intn(4) == 0})
	}
	switch class {
	case "valid":
		return valid()
	case "valid-ood":
		return model.GenReply(r, op, a, S, model.ReplyOpts{OOD: true, Junk: r.Intn(4) == 0})
	case "wronglen":
		d := valid()
		if op == model.GetStatus && r.Intn(3) == 0 {
			d[0] = 0x19 // the v6.62 marker in front of a message of the wrong length
		}
		var n int
		switch r.Intn(6) {
		case 0:
			n = pick(r, 0, 1, 1, 2, 3, 4, 7, 8, 63, 65, 128, 1024, 2047, 2048, 2049, 4096)
		case 1:
			n = r.Intn(64)
		default:
			n = 65 + r.Intn(960)
		}
		if n <= 64 {
			return d[:n]
		}
		ext := make([]byte, n)
		copy(ext, d)
		for i := 64; i < n; i++ {
			ext[i] = byte(r.Intn(256))
		}
		return ext
	case "echo":
		// the request itself comes back (a reflector, a loop in the network): 64 bytes, right header, right serial -
		// to the protocol a reply like any other, to be read field by field
		if d := model.Encode(op, a); len(d) == 64 {
			d[4], d[5], d[6], d[7] = byte(S), byte(S>>8), byte(S>>16), byte(S>>24)
			return d
		}
		return valid()
	case "wrongserial":
		d := model.GenReply(r, op, a, b.otherSerial(S), model.ReplyOpts{})
		return d
	case "serial0":
		return model.GenReply(r, op, a, 0, model.ReplyOpts{})
	case "wrongfn":
		d := valid()
		for {
			c := byte(r.Intn(256))
			if r.Intn(2) == 0 {
				c = model.Op(r.Intn(int(model.NumOps))).Code()
			}
			if c != op.Code() {
				d[1] = c
				break
			}
		}
		return d
	case "wrongproto":
		d := valid()
		for {
			c := byte(r.Intn(256))
			if r.Intn(3) == 0 {
				c = pick(r, byte(0x00), 0x16, 0x18, 0x19, 0x71, 0xff)
			}
			if c != 0x17 && !(c == 0x19 && op.Code() == 0x20) {
				d[0] = c
				break
			}
		}
		return d
	case "proto19":
		d := valid()
		d[0] = 0x19
		return d
	case "malformed":
		if !model.HasHardField(op) {
			return valid()
		}
		return model.GenReply(r, op, a, S, model.ReplyOpts{Hard: true})
	case "garbage":
		n := r.Intn(200)
		if r.Intn(4) == 0 {
			n = r.Intn(2200)
		}
		d := make([]byte, n)
		r.Read(d)
		if n >= 8 && r.Intn(2) == 0 { // a plausible header in front of noise
			d[0], d[1] = 0x17, op.Code()
			d[4], d[5], d[6], d[7] = byte(S), byte(S>>8), byte(S>>16), byte(S>>24)
		}
		return d
	}
	return nil
}

// callStep creates a call with a plan in which the addressed controller answers once, validly, after 'after'.
func (b *builder) callStep(client int, op model.Op, a model.Args, known *ctl, after time.Duration, o model.ReplyOpts) engine.Step {
	st := engine.Step{Kind: "call", Client: client, Op: op, Args: a}
	rt := b.route(client, op, a.Serial)
	if rt.Path == "tcp" {
		st.Plan.TCP = "accept"
	}
	if op.HasReply() && op != model.GetDevices && model.Validate(op, &a) == "" {
		d := model.GenReply(b.r, op, &a, a.Serial, o)
		st.Plan.Emits = append(st.Plan.Emits, b.emit(rt, known, after, d, "valid"))
	}
	return st
}

func (b *builder) emit(rt model.Route, known *ctl, after time.Duration, data []byte, class string) engine.Emit {
	e := engine.Emit{After: after, Data: data, Class: class}
	if rt.Path == "tcp" {
		e.Via = "tcp"
	} else {
		e.Via = "udp"
		e.From = b.replyFrom(rt, known)
	}
	return e
}

func (b *builder) anyOp() model.Op {
	return model.Op(b.r.Intn(int(model.NumOps)))
}

func (b *builder) anyCallOp() model.Op { // not discovery
	return model.Op(1 + b.r.Intn(int(model.NumOps)-1))
}

// noise adds arbitrary network behaviour to a plan (used where the property does not care what the network does).
func (b *builder) noise(st *engine.Step, T time.Duration) {
	r := b.r
	rt := b.route(st.Client, st.Op, st.Args.Serial)
	switch r.Intn(5) {
	case 0: // silence
		st.Plan.Emits = nil
	case 1: // strays ahead of the reply
		n := 1 + r.Intn(3)
		var pre []engine.Emit
		for i := 0; i < n; i++ {
			cl := pick(r, classes...)
			pre = append(pre, b.emit(rt, nil, b.delay(T), b.datagram(cl, st.Op, &st.Args, st.Args.Serial), cl))
		}
		st.Plan.Emits = append(pre, st.Plan.Emits...)
	case 2:
		if rt.Path == "tcp" {
			st.Plan.TCP = pick(r, "refuse", "blackhole", "accept")
		}
	}
}

// Generate draws the scenario of a profile for a seed.
func Generate(profile string, seed int64) *engine.Scenario {
	r := rand.New(rand.NewSource(seed*2654435761 + int64(len(profile))*97 + int64(profile[len(profile)-1])))
	sc := &engine.Scenario{Seed: seed, Profile: profile}
	b := &builder{r: r, sc: sc, prof: profile, scale: 1}
	if Thorough && r.Intn(2) == 0 {
		b.scale = 2
	}
	if cold(seed) {
		// the first run of a fresh process (any profile)
		genStorm(b)
		return sc
	}
	switch profile {
	case "C01":
		genC01(b)
	case "C02":
		genC02(b)
	case "C03":
		genC03(b)
	case "C06":
		genC06(b)
	case "C07":
		genC07(b)
	case "C04":
		genC04(b)
	case "C08":
		genC08(b)
	case "C09":
		genC09(b)
	case "C10":
		genC10(b)
	case "C11":
		genC11(b)
	case "C17":
		genC17(b)
	case "C13":
		genC13(b)
	default:
		panic("gen: unknown profile " + profile)
	}
	return sc
}

// ColdIndex0: run indices from here on (seed = base*1e9 + index) belong to runs that are the first and only run
// of their process (the driver starts one process each): whatever the library initialises lazily - caches, pools,
// once-only tables - is initialised during such a run. Its scenario is a storm: several goroutines issue the same
// operations at the same instant, each answered validly.
const ColdIndex0 = 900000000

func cold(seed int64) bool { return seed%1000000000 >= ColdIndex0 }

// IsCold: the seed belongs to a cold-start run.
func IsCold(seed int64) bool { return cold(seed) }

func genStorm(b *builder) {
	r := b.r
	sc := b.sc
	b.base(baseOpt{minCtl: 1, maxCtl: 4, maxClients: 2})
	ops := []model.Op{b.anyCallOp()}
	for r.Intn(2) == 0 && len(ops) < 4 {
		ops = append(ops, b.anyCallOp())
	}
	nt := 2 + r.Intn(5)
	for t := 0; t < nt; t++ {
		tk := engine.Task{}
		for _, op := range ops {
			client := r.Intn(len(sc.Clients))
			T := sc.Clients[client].Timeout
			serial, known := b.target()
			a := b.args(op, serial, known)
			st := b.callStep(client, op, a, known, pick(r, 0, 0, b.early(T)/4), model.ReplyOpts{})
			if sc.Profile == "C03" && r.Intn(2) == 0 && len(st.Plan.Emits) == 1 {
				// what must not be accepted must not be accepted by a process that has only just started either
				cl := pick(r, "malformed", "malformed", "wrongfn", "wrongproto", "valid-ood")
				st.Plan.Emits[0].Data = b.datagram(cl, op, &a, serial)
				st.Plan.Emits[0].Class = cl
			}
			tk.Steps = append(tk.Steps, st)
		}
		sc.Tasks = append(sc.Tasks, tk)
	}
}

// ---- C01: requests on the wire -----------------------------------------------------------------

// zoneArgs rewrites the date-bearing arguments of a call with values biased to the holes of a zone: dates whose
// local midnight the zone skipped, and - for SetTime - an instant given in a fixed-offset Location whose wall clock
// reads a time the zone skipped (the request carries the argument's own wall clock, whatever the process zone is).
func (z *zoneGen) zoneArgs(op model.Op, a *model.Args) {
	r := z.r
	switch op {
	case model.PutCard:
		if a.Card != nil {
			a.Card.From, a.Card.To = z.date(1, 9999), z.date(1, 9999)
		}
	case model.SetTimeProfile:
		if a.Profile != nil {
			a.Profile.From, a.Profile.To = z.date(1, 9999), z.date(1, 9999)
		}
	case model.AddTask:
		if a.Task != nil {
			a.Task.From, a.Task.To = z.date(1, 9999), z.date(1, 9999)
		}
	case model.SetTime:
		if y, mo, d, h, mi, s, ok := z.around(1900, 2100); ok {
			off := pick(r, 0, 0, 3600, -3600, 19800, -12600, 50400)
			t := time.Date(y, time.Month(mo), d, h, mi, s, 0, time.FixedZone("", off))
			a.Time = &model.Civil{Y: y, Mo: mo, D: d, H: h, Mi: mi, S: s, Offset: off, Unix: t.Unix()}
		}
	}
}

func genC01(b *builder) {
	r := b.r
	b.base(baseOpt{minCtl: 1, maxCtl: 4, maxClients: 3})
	var z *zoneGen
	if r.Intn(8) == 0 {
		// the bytes of a request do not depend on the process zone
		z = b.drawZone()
	}
	nt := 1 + b.n(4)
	long := r.Intn(80) == 0 // hundreds of calls on one client: the bytes of the last are as right as those of the first
	if long {
		nt = 1
	}
	for t := 0; t < nt; t++ {
		tk := engine.Task{Start: time.Duration(r.Intn(3)) * 10 * time.Millisecond}
		ns := 1 + b.n(5)
		if long {
			ns = pick(r, 130, 257, 300, 515)
		}
		for s := 0; s < ns; s++ {
			client := r.Intn(len(b.sc.Clients))
			T := b.sc.Clients[client].Timeout
			op := b.anyOp()
			if z != nil && r.Intn(2) == 0 {
				op = pick(r, model.SetTime, model.SetTime, model.PutCard, model.SetTimeProfile, model.AddTask)
			}
			serial, known := b.target()
			a := b.args(op, serial, known)
			if z != nil && r.Intn(2) == 0 {
				z.zoneArgs(op, &a)
			}
			st := b.callStep(client, op, a, known, b.early(T), model.ReplyOpts{})
			if long {
				for i := range st.Plan.Emits {
					st.Plan.Emits[i].After = time.Duration(r.Int63n(int64(T)/64 + 1))
				}
				if op == model.GetDevices {
					continue // (a whole timeout each)
				}
				tk.Steps = append(tk.Steps, st)
				continue
			}
			b.noise(&st, T)
			tk.Steps = append(tk.Steps, st)
		}
		b.sc.Tasks = append(b.sc.Tasks, tk)
	}
}

// segment: now and then a TCP reply leaves the controller in two or three segments.
func (b *builder) segment(st *engine.Step) {
	r := b.r
	for i := range st.Plan.Emits {
		e := &st.Plan.Emits[i]
		if e.Via == "tcp" && len(e.Data) == 64 && r.Intn(8) == 0 {
			e.Split = pick(r, []int{8}, []int{4}, []int{32}, []int{63}, []int{1}, []int{20, 20}, []int{7, 1}, []int{56})
			e.Gap = pick(r, 0, 0, time.Microsecond, time.Millisecond)
		}
	}
}

// ---- C02: replies -------------------------------------------------------------------------------

func genC02(b *builder) {
	r := b.r
	b.base(baseOpt{minCtl: 1, maxCtl: 3, maxClients: 2})
	var z *zoneGen
	if r.Intn(8) == 0 {
		// the reading of a reply does not depend on the process zone
		z = b.drawZone()
	}
	tk := engine.Task{}
	ns := 1 + b.n(6)
	for s := 0; s < ns; s++ {
		client := r.Intn(len(b.sc.Clients))
		T := b.sc.Clients[client].Timeout
		op := b.anyCallOp()
		for !op.HasReply() {
			op = b.anyCallOp()
		}
		serial, known := b.target()
		a := b.args(op, serial, known)
		o := model.ReplyOpts{Junk: r.Intn(3) == 0, OOD: r.Intn(5) == 0}
		if op == model.GetStatus && r.Intn(6) == 0 {
			o.V19 = true
		}
		st := b.callStep(client, op, a, known, b.early(T), o)
		b.segment(&st)
		if z != nil && !o.OOD && r.Intn(2) == 0 {
			for i := range st.Plan.Emits {
				d := st.Plan.Emits[i].Data
				echo := append([]byte(nil), d[8:12]...)
				zz := z
				if known != nil && known.tz != "" && r.Intn(2) == 0 {
					if dz := zoneOf(r, known.tz); dz != nil {
						zz = dz
					}
				}
				if op == model.GetStatus {
					zz.fixStatus(d)
				} else {
					zz.fix(op, d)
				}
				if op == model.GetCardByID {
					copy(d[8:12], echo)
				}
			}
		}
		tk.Steps = append(tk.Steps, st)
	}
	b.sc.Tasks = append(b.sc.Tasks, tk)
}

// ---- C03: acceptance -----------------------------------------------------------------------------

func genC03(b *builder) {
	r := b.r
	b.base(baseOpt{minCtl: 1, maxCtl: 4, maxClients: 2})
	nt := 1
	if r.Intn(4) == 0 {
		nt = 2
	}
	for t := 0; t < nt; t++ {
		tk := engine.Task{}
		ns := 1 + b.n(3)
		for s := 0; s < ns; s++ {
			client := r.Intn(len(b.sc.Clients))
			T := b.sc.Clients[client].Timeout
			op := b.anyCallOp()
			serial, known := b.target()
			a := b.args(op, serial, known)
			st := engine.Step{Kind: "call", Client: client, Op: op, Args: a}
			rt := b.route(client, op, serial)
			if rt.Path == "tcp" {
				st.Plan.TCP = "accept"
			}
			n := r.Intn(5)
			if r.Intn(3) == 0 {
				n = 1 + r.Intn(2)
			}
			var at time.Duration
			if rt.Path == "broadcast" && r.Intn(40) == 0 {
				// a busy network: hundreds of datagrams that must be ignored, one after the other, S's reply behind them
				m := pick(r, 130, 257, 300, 520)
				gap := T / time.Duration(2*m)
				if gap <= 0 {
					gap = 1
				}
				for i := 0; i < m; i++ {
					cl := pick(r, "wrongserial", "wrongserial", "wronglen", "serial0")
					d := b.datagram(cl, op, &a, serial)
					if len(d) > 80 {
						d = d[:80]
					}
					at += gap
					st.Plan.Emits = append(st.Plan.Emits, b.emit(rt, known, at, d, cl))
				}
			}
			for i := 0; i < n; i++ {
				cl := pick(r, classes03...)
				if r.Intn(3) == 0 {
					cl = "valid"
				}
				d := b.datagram(cl, op, &a, serial)
				// arrival order = emission order unless delays say otherwise
				if r.Intn(4) == 0 {
					at = b.delay(T)
				} else {
					at += time.Duration(r.Int63n(int64(T)/4 + 1))
				}
				e := b.emit(rt, known, at, d, cl)
				if rt.Path != "tcp" && r.Intn(6) == 0 {
					// from somebody else: on the broadcast path anyone may answer; a connected socket filters it
					e.From = fmt.Sprintf("%s.%d:%d", b.prefix, 200+r.Intn(50), pick(r, 60000, 60000, 12345))
				}
				st.Plan.Emits = append(st.Plan.Emits, e)
			}
			b.segment(&st)
			tk.Steps = append(tk.Steps, st)
		}
		b.sc.Tasks = append(b.sc.Tasks, tk)
	}
}

// ---- C06: routing ---------------------------------------------------------------------------------

func genC06(b *builder) {
	r := b.r
	b.base(baseOpt{minCtl: 1, maxCtl: 4, maxClients: 3, extraEndpoints: true, badDevAddrs: true})
	if r.Intn(8) == 0 {
		// the event listener of a client runs beside its calls - now and then on the very port the client binds
		// its requests to (then a request either leaves from that address or does not leave at all)
		c := &b.sc.Clients[0]
		if lap, err := netip.ParseAddrPort(c.Listen); err == nil && r.Intn(2) == 0 {
			ip := "0.0.0.0"
			if bap, err := netip.ParseAddrPort(c.Bind); err == nil {
				ip = bap.Addr().String()
			}
			c.Bind = fmt.Sprintf("%s:%d", ip, lap.Port())
		}
		ls := b.listenStep(0)
		ls.Holds = nil
		ls.StopAfter = time.Duration(1+r.Intn(4)) * time.Second
		b.sc.Tasks = append(b.sc.Tasks, engine.Task{Steps: []engine.Step{ls}})
	}
	tk := engine.Task{Start: time.Duration(r.Intn(2)) * time.Millisecond}
	ns := 1 + b.n(6)
	for s := 0; s < ns; s++ {
		client := r.Intn(len(b.sc.Clients))
		T := b.sc.Clients[client].Timeout
		op := b.anyOp()
		serial, known := b.target()
		a := b.args(op, serial, known)
		st := b.callStep(client, op, a, known, b.early(T), model.ReplyOpts{})
		if r.Intn(4) == 0 {
			b.noise(&st, T)
		}
		tk.Steps = append(tk.Steps, st)
	}
	b.sc.Tasks = append(b.sc.Tasks, tk)
}

// ---- C07: validation ------------------------------------------------------------------------------

// invalidate pushes the arguments of op across one of the stated boundaries (or leaves them just inside).
func invalidate(r *rand.Rand, op model.Op, a *model.Args) {
	if r.Intn(6) == 0 {
		a.Serial = 0
		return
	}
	switch op {
	case model.PutCard:
		c := a.Card
		switch r.Intn(9) {
		case 0:
			c.Number = pick(r, uint32(0), 0xffffffff, 0x00ffffff)
		case 1:
			c.Number = pick(r, uint32(1), 0xfffffffe, 0x00fffffe, 0x01000000, 0x00ffffff+1)
		case 2:
			c.PIN = pick(r, uint32(999999), 1000000, 1000001, 0xffffffff, 16777215, 16777216)
		case 3, 4, 5: // Wiegand-26 boundaries
			a.Formats = pick(r, []int{1}, []int{1}, []int{1, 1}, []int{1, 0}, []int{0, 1}, []int{2}, []int{2, 1}, []int{7}, []int{})
			fac := pick(r, uint32(0), 1, 254, 255, 256, 257, 999, 1000, 10000, 42949)
			num := pick(r, uint32(0), 1, 65534, 65535, 65536, 65537, 99999, 12345)
			if r.Intn(3) == 0 {
				fac, num = uint32(r.Intn(300)), uint32(r.Intn(100000))
			}
			c.Number = fac*100000 + num
			if r.Intn(5) == 0 {
				c.Number = pick(r, uint32(100012345), 1000012345, 255065535, 4294967295-1, 2556553500, 300000000, 25565535, 25565536, 25600000)
			}
			if c.Number == 0 {
				c.Number = 1
			}
		}
	case model.SetListener:
		a.AddrPort = pick(r, "", "0.0.0.0:0", "0.0.0.0:60001", "192.168.1.100:0", "192.168.1.100:1", "192.168.1.100:65535",
			"[::1]:60001", "[::ffff:192.168.1.100]:60001", "[fe80::1%eth0]:60001", "[::]:0", "[::]:60001", "255.255.255.255:60001", "[2001:db8::1]:1", "[::ffff:0.0.0.0]:0")
	case model.SetAddress:
		bad := [][]byte{nil, {}, {1, 2, 3}, {1, 2, 3, 4, 5}, {0x20, 0x01, 0x0d, 0xb8, 0, 0, 0, 0, 0, 0, 0, 0, 0, 0, 0, 1},
			{0, 0, 0, 0, 0, 0, 0, 0, 0, 0, 0, 0, 0, 0, 0, 1}, {0, 0, 0, 0, 0, 0, 0, 0, 0, 0, 0xff, 0xff, 10, 0, 0, 1}, {10, 0, 0, 1},
			make([]byte, 16), make([]byte, 16), {0, 0, 0, 0}}
		a.IPs[r.Intn(3)] = append([]byte(nil), bad[r.Intn(len(bad))]...)
		if r.Intn(4) == 0 {
			a.IPs[r.Intn(3)] = nil
		}
	case model.SetDoorPasscodes:
		a.U8 = pick(r, uint8(0), 1, 4, 5, 255, 128)
		a.Passcodes = nil
		n := r.Intn(7)
		for i := 0; i < n; i++ {
			a.Passcodes = append(a.Passcodes, pick(r, uint32(0), 1, 999999, 1000000, 1000001, 0xffffffff, 123456))
		}
	case model.SetTimeProfile:
		p := a.Profile
		switch r.Intn(10) {
		case 8: // a segment filed under a key outside 1..3 instead of its own: still 3 entries, one of 1..3 missing
			if p.Segments != nil {
				k := uint8(1 + r.Intn(3))
				p.Segments[pick(r, uint8(0), 4, 5, 255)] = p.Segments[k]
				delete(p.Segments, k)
				if r.Intn(2) == 0 {
					p.Segments[pick(r, uint8(6), 7, 128)] = model.Segment{}
				}
			}
		case 9: // stray entries beside a complete 1..3: never a reason to reject, whatever they hold
			if p.Segments != nil {
				p.Segments[pick(r, uint8(0), 4, 255)] = pick(r, model.Segment{Start: model.HHmm{H: 18, M: 0}, End: model.HHmm{H: 17, M: 0}},
					model.Segment{Start: model.HHmm{H: 8, M: 30}, End: model.HHmm{H: 9, M: 45}})
			}
		case 0:
			p.From.Zero, p.From.ZK = true, r.Intn(4)
		case 1:
			p.To.Zero, p.To.ZK = true, r.Intn(4)
		case 2:
			delete(p.Segments, uint8(1+r.Intn(3)))
		case 3:
			p.Segments = nil
		case 4, 5: // end before / equal / after start by a minute
			k := uint8(1 + r.Intn(3))
			s := model.GenHHmm(r)
			e := s
			switch r.Intn(4) {
			case 0:
				if e.M > 0 {
					e.M--
				} else if e.H > 0 {
					e.H, e.M = e.H-1, 59
				}
			case 1:
				if e.H > 0 {
					e.H--
					e.M = 59
				}
			case 2:
				if e.H < 24 && e.M < 59 {
					e.M++
				}
			}
			if p.Segments == nil {
				p.Segments = map[uint8]model.Segment{1: {}, 2: {}, 3: {}}
			}
			p.Segments[k] = model.Segment{Start: s, End: e}
		case 6:
			p.Weekdays = nil
		}
	}
}

func genC07(b *builder) {
	r := b.r
	b.base(baseOpt{minCtl: 1, maxCtl: 3, maxClients: 2})
	tk := engine.Task{}
	ns := 1 + b.n(6)
	validated := []model.Op{model.PutCard, model.PutCard, model.PutCard, model.SetListener, model.SetAddress, model.SetDoorPasscodes, model.SetTimeProfile}
	for s := 0; s < ns; s++ {
		client := r.Intn(len(b.sc.Clients))
		T := b.sc.Clients[client].Timeout
		op := b.anyCallOp()
		if r.Intn(3) > 0 {
			op = pick(r, validated...)
		}
		serial, known := b.target()
		a := b.args(op, serial, known)
		invalidate(r, op, &a)
		st := b.callStep(client, op, a, known, b.early(T), model.ReplyOpts{})
		tk.Steps = append(tk.Steps, st)
	}
	b.sc.Tasks = append(b.sc.Tasks, tk)
}

var _ = netip.AddrPort{}
var _ = vnet.Fault{}

// ---- C09: termination and release ---------------------------------------------------------------

// genZeroTimeout: a client configured with a timeout of zero. Nothing can be answered in no time: every call returns
// at once - it does not wait for ever.
func genZeroTimeout(b *builder) {
	r := b.r
	sc := b.sc
	b.base(baseOpt{minCtl: 1, maxCtl: 3, maxClients: 2, fixedBind: pick(r, 0, 2)})
	for i := range sc.Clients {
		sc.Clients[i].Timeout = 0
	}
	nt := 1 + r.Intn(2)
	for t := 0; t < nt; t++ {
		tk := engine.Task{}
		for s := 1 + r.Intn(3); s > 0; s-- {
			client := r.Intn(len(sc.Clients))
			op := b.anyOp()
			serial, known := b.target()
			a := b.args(op, serial, known)
			st := engine.Step{Kind: "call", Client: client, Op: op, Args: a}
			rt := b.route(client, op, serial)
			if rt.Path == "tcp" {
				st.Plan.TCP = pick(r, "accept", "accept", "refuse", "blackhole")
			}
			if op.HasReply() && op != model.GetDevices && r.Intn(2) == 0 {
				st.Plan.Emits = append(st.Plan.Emits, b.emit(rt, known, pick(r, 0, 0, 1, time.Millisecond), model.GenReply(r, op, &a, serial, model.ReplyOpts{}), "valid"))
			}
			tk.Steps = append(tk.Steps, st)
		}
		sc.Tasks = append(sc.Tasks, tk)
	}
}

func genC09(b *builder) {
	r := b.r
	sc := b.sc
	if r.Intn(50) == 0 {
		genZeroTimeout(b)
		return
	}
	queued := r.Intn(3) == 0
	if queued {
		b.base(baseOpt{minCtl: 1, maxCtl: 3, maxClients: 2, fixedBind: 2})
	} else {
		b.base(baseOpt{minCtl: 1, maxCtl: 3, maxClients: 2})
		sc.Checkpoints = true
	}
	// a foreign process sits on the fixed port
	if r.Intn(12) == 0 {
		for _, c := range sc.Clients {
			if ap, err := netip.ParseAddrPort(c.Bind); err == nil && ap.Port() != 0 {
				sc.Foreign = append(sc.Foreign, vnet.ForeignPort{Proto: pick(r, "udp", "tcp"), Port: ap.Port()})
				break
			}
		}
	}
	// injected system call failures
	if r.Intn(6) == 0 {
		n := 1 + r.Intn(2)
		for i := 0; i < n; i++ {
			kind := pick(r, "bind", "setdeadline", "udpwrite", "tcpwrite", "dial")
			errno := map[string][]string{
				"bind": {"EADDRINUSE", "EMFILE", "EADDRNOTAVAIL"}, "setdeadline": {"EINVAL"}, "udpwrite": {"ENETUNREACH", "EPERM", "ENOBUFS"},
				"tcpwrite": {"EPIPE"}, "dial": {"EMFILE", "ENETUNREACH"},
			}[kind]
			sc.Faults = append(sc.Faults, vnet.Fault{Kind: kind, Nth: r.Intn(4), Errno: pick(r, errno...)})
		}
	}
	nt := 1
	if queued {
		nt = 2 + b.n(4)
	}
	crowd := queued && r.Intn(16) == 0
	if crowd {
		nt = 17 + r.Intn(10) // a crowd waiting for the one port: served in turn, every one of them
	}
	long := !queued && r.Intn(60) == 0 // a long life: hundreds of calls on the same clients, nothing accumulates
	longFail := long && r.Intn(3) == 0
	if longFail {
		// ... of which none can even get its socket: another process holds the fixed bind port throughout, every
		// controller is reached by broadcast
		port := uint16(60001 + r.Intn(5))
		for i := range sc.Clients {
			sc.Clients[i].Bind = fmt.Sprintf("0.0.0.0:%d", port)
			sc.Clients[i].Devices = nil
		}
		sc.Foreign = append(sc.Foreign, vnet.ForeignPort{Proto: "udp", Port: port}, vnet.ForeignPort{Proto: "tcp", Port: port})
	}
	for t := 0; t < nt; t++ {
		tk := engine.Task{Start: time.Duration(r.Intn(3)) * time.Millisecond}
		ns := 1 + b.n(6)
		if queued {
			ns = 1 + r.Intn(3)
		}
		if crowd {
			ns = 1
		}
		if long {
			ns = pick(r, 130, 260, 300, 520)
		}
		if longFail {
			ns = pick(r, 300, 600, 900)
		}
		for s := 0; s < ns; s++ {
			client := r.Intn(len(sc.Clients))
			T := sc.Clients[client].Timeout
			if !queued && !long && r.Intn(8) == 0 {
				// the event listener in the history: started and stopped, or unable to start (port held by
				// another process, no listen port configured)
				ls := b.listenStep(client)
				if len(ls.Feed) > 6 {
					ls.Feed = ls.Feed[:6]
				}
				ls.Holds = nil // a callback of the application that is still running when Listen returns is not the library's goroutine to end
				switch r.Intn(4) {
				case 0:
					if ap, err := netip.ParseAddrPort(sc.Clients[client].Listen); err == nil {
						sc.Foreign = append(sc.Foreign, vnet.ForeignPort{Proto: "udp", Port: ap.Port()})
					}
				case 1:
					sc.Clients[client].Listen = ""
				}
				tk.Steps = append(tk.Steps, ls)
				continue
			}
			op := b.anyOp()
			serial, known := b.target()
			a := b.args(op, serial, known)
			st := engine.Step{Kind: "call", Client: client, Op: op, Args: a}
			rt := b.route(client, op, serial)
			valid := func(after time.Duration) {
				if op.HasReply() && op != model.GetDevices {
					st.Plan.Emits = append(st.Plan.Emits, b.emit(rt, known, after, model.GenReply(r, op, &a, serial, model.ReplyOpts{}), "valid"))
				}
			}
			if op == model.GetDevices {
				for i := r.Intn(4); i > 0; i-- {
					d := model.GenReply(r, model.GetDevice, &a, model.GenSerial(r), model.ReplyOpts{})
					st.Plan.Emits = append(st.Plan.Emits, engine.Emit{After: b.delay(T), Via: "udp", From: fmt.Sprintf("%s.%d:60000", b.prefix, 100+r.Intn(100)), Data: d, Class: "valid"})
				}
				tk.Steps = append(tk.Steps, st)
				continue
			}
			if crowd || (long && r.Intn(20) > 0) {
				if rt.Path == "tcp" {
					st.Plan.TCP = "accept"
				}
				valid(time.Duration(r.Int63n(int64(T)/64 + 1)))
				tk.Steps = append(tk.Steps, st)
				continue
			}
			switch rt.Path {
			case "tcp":
				switch r.Intn(9) {
				case 0:
					st.Plan.TCP = "refuse"
					st.Plan.ConnDelay = b.early(T)
				case 1:
					st.Plan.TCP = "blackhole"
				case 2: // accept and stall
					st.Plan.TCP = "accept"
					st.Plan.ConnDelay = b.early(T) / 2
				case 3: // reset after the request
					st.Plan.TCP = "accept"
					st.Plan.Emits = append(st.Plan.Emits, engine.Emit{After: b.delay(T), Via: "tcp-rst"})
				case 4: // close without reply
					st.Plan.TCP = "accept"
					st.Plan.Emits = append(st.Plan.Emits, engine.Emit{After: b.delay(T), Via: "tcp-fin"})
				case 5: // late connect + reply
					st.Plan.TCP = "accept"
					st.Plan.ConnDelay = b.delay(T)
					valid(b.early(T) / 4)
				default:
					st.Plan.TCP = "accept"
					valid(pick(r, b.early(T), T-1, T, T+1, 2*T))
				}
			default:
				switch r.Intn(9) {
				case 0: // silence
				case 1: // late reply
					valid(pick(r, T, T+1, 2*T, T+T/2))
				case 2: // reply just in time
					valid(pick(r, T-1, T-2, T/2, 0, 1))
				case 3: // flood of irrelevant datagrams until past the deadline
					step := T / time.Duration(4+r.Intn(12))
					if step <= 0 {
						step = 1
					}
					for at := time.Duration(r.Int63n(int64(step) + 1)); at < 3*T && len(st.Plan.Emits) < 60; at += step {
						cl := pick(r, "wrongserial", "wronglen", "serial0", "garbage")
						st.Plan.Emits = append(st.Plan.Emits, b.emit(rt, known, at, b.datagram(cl, op, &a, serial), cl))
					}
					if r.Intn(2) == 0 {
						valid(pick(r, T-1, T/2, T+1))
					}
				case 5: // a burst: many irrelevant datagrams at the very same instant, the reply well after them
					if r.Intn(3) > 0 {
						valid(b.early(T))
						break
					}
					n := pick(r, 20, 45, 90, 150, 240)
					at := b.early(T) / 2
					for i := 0; i < n; i++ {
						cl := pick(r, "wrongserial", "wrongserial", "serial0")
						st.Plan.Emits = append(st.Plan.Emits, b.emit(rt, known, at, b.datagram(cl, op, &a, serial), cl))
					}
					if r.Intn(2) == 0 {
						valid(at) // in the middle of the burst
					} else {
						valid(at + 1 + time.Duration(r.Int63n(int64(T-at))))
					}
				case 4: // ICMP port unreachable (connected UDP only; harmless elsewhere)
					st.Plan.Emits = append(st.Plan.Emits, engine.Emit{After: b.early(T), Via: "icmp"})
				default:
					valid(b.early(T))
				}
			}
			tk.Steps = append(tk.Steps, st)
		}
		sc.Tasks = append(sc.Tasks, tk)
	}
}

// ---- C11: discovery ---------------------------------------------------------------------------------

func genC11(b *builder) {
	r := b.r
	sc := b.sc
	queued := r.Intn(5) == 0
	if queued {
		// discovery has to wait its turn for a shared fixed bind port held by another call
		b.base(baseOpt{minCtl: 1, maxCtl: 6, maxClients: 2, fixedBind: 2})
		other := engine.Task{}
		for i := 1 + r.Intn(2); i > 0; i-- {
			client := r.Intn(len(sc.Clients))
			op := b.anyCallOp()
			serial, known := b.target()
			a := b.args(op, serial, known)
			st := b.callStep(client, op, a, known, b.early(sc.Clients[client].Timeout), model.ReplyOpts{})
			if r.Intn(2) == 0 {
				st.Plan.Emits = nil // silent controller: the port is held for a whole timeout
			}
			other.Steps = append(other.Steps, st)
		}
		sc.Tasks = append(sc.Tasks, other)
	} else {
		b.base(baseOpt{minCtl: 0, maxCtl: 6, maxClients: 2})
	}
	var z *zoneGen
	if r.Intn(8) == 0 {
		// an entry is the decoding of its reply in every process zone
		z = b.drawZone()
	}
	tk := engine.Task{Start: time.Duration(r.Intn(3)) * time.Millisecond}
	ns := 1 + b.n(3)
	for s := 0; s < ns; s++ {
		client := r.Intn(len(sc.Clients))
		T := sc.Clients[client].Timeout
		st := engine.Step{Kind: "call", Client: client, Op: model.GetDevices}
		a := model.Args{}
		nsrc := r.Intn(7)
		for i := 0; i < nsrc; i++ {
			var serial uint32
			var from string
			if i < len(b.ctls) && r.Intn(4) > 0 {
				serial, from = b.ctls[i].serial, fmt.Sprintf("%s:%d", b.ctls[i].ip, b.ctls[i].port)
			} else {
				serial, from = model.GenSerial(r), fmt.Sprintf("%s.%d:60000", b.prefix, 120+r.Intn(100))
			}
			nrep := r.Intn(4)
			var last []byte
			for k := 0; k < nrep; k++ {
				cl := "valid"
				if r.Intn(3) == 0 {
					cl = pick(r, "wronglen", "wrongproto", "wrongfn", "malformed", "garbage", "valid-ood", "proto19", "serial0", "echo")
				}
				d := b.datagram(cl, model.GetDevice, &a, serial)
				if cl == "echo" {
					d = model.Encode(model.GetDevices, &model.Args{}) // the discovery request as it left: an all-zero reply
				}
				if cl == "valid" && last != nil && r.Intn(3) == 0 {
					d = append([]byte(nil), last...) // exact duplicate
					cl = "duplicate"
				}
				if cl == "valid" && z != nil && r.Intn(2) == 0 {
					z.fix(model.GetDevice, d)
				}
				if cl == "valid" {
					last = d
				}
				st.Plan.Emits = append(st.Plan.Emits, engine.Emit{After: b.delay(T), Via: "udp", From: from, Data: d, Class: cl})
			}
		}
		if r.Intn(40) == 0 {
			// a large site: a hundred and more controllers answer within the window, one after the other
			m := pick(r, 65, 129, 200, 300)
			gap := T / time.Duration(2*m)
			if gap <= 0 {
				gap = 1
			}
			at := time.Duration(r.Int63n(int64(T) / 4))
			noisy := r.Intn(2) == 0
			for i := 0; i < m; i++ {
				at += gap
				d := model.GenReply(r, model.GetDevice, &a, model.GenSerial(r), model.ReplyOpts{})
				st.Plan.Emits = append(st.Plan.Emits, engine.Emit{After: at, Via: "udp", From: fmt.Sprintf("%s.%d:60000", b.prefix, 10+i%80), Data: d, Class: "valid"})
				if noisy && r.Intn(8) == 0 {
					// noise of odd lengths among them
					at += gap / 2
					x := b.datagram(pick(r, "wronglen", "garbage"), model.GetDevice, &a, model.GenSerial(r))
					st.Plan.Emits = append(st.Plan.Emits, engine.Emit{After: at, Via: "udp", From: fmt.Sprintf("%s.%d:60000", b.prefix, 200+i%50), Data: x, Class: "wronglen"})
				}
			}
		}
		r.Shuffle(len(st.Plan.Emits), func(i, j int) { st.Plan.Emits[i], st.Plan.Emits[j] = st.Plan.Emits[j], st.Plan.Emits[i] })
		tk.Steps = append(tk.Steps, st)
	}
	sc.Tasks = append(sc.Tasks, tk)
}

// ---- C10: listener ----------------------------------------------------------------------------------

// eventDatagram draws one datagram for the listener.
func (b *builder) eventDatagram() ([]byte, string) {
	r := b.r
	a := model.Args{}
	serial := model.GenSerial(r)
	if len(b.ctls) > 0 && r.Intn(2) == 0 {
		serial = b.ctls[r.Intn(len(b.ctls))].serial
	}
	cl := "valid"
	switch r.Intn(10) {
	case 0:
		cl = "v19"
	case 1:
		cl = pick(r, "wronglen", "serial0", "wrongfn", "wrongproto", "malformed", "garbage", "valid-ood")
	case 2:
		cl = pick(r, "wronglen", "garbage")
	}
	var dz *zoneGen
	for i := range b.ctls {
		if b.ctls[i].serial == serial && b.ctls[i].tz != "" && r.Intn(2) == 0 {
			dz = zoneOf(r, b.ctls[i].tz)
		}
	}
	if dz == nil {
		dz = b.zone
	}
	if dz != nil && (cl == "valid" || cl == "v19") {
		d := model.GenReply(r, model.GetStatus, &a, serial, model.ReplyOpts{V19: cl == "v19"})
		dz.fixStatus(d)
		return d, cl
	}
	switch cl {
	case "v19":
		return model.GenReply(r, model.GetStatus, &a, serial, model.ReplyOpts{V19: true, Junk: r.Intn(4) == 0}), cl
	case "wrongproto":
		d := model.GenReply(r, model.GetStatus, &a, serial, model.ReplyOpts{})
		for d[0] == 0x17 || d[0] == 0x19 {
			d[0] = byte(r.Intn(256))
		}
		return d, cl
	}
	d := b.datagram(cl, model.GetStatus, &a, serial)
	if (cl == "malformed" || cl == "valid-ood" || cl == "serial0") && len(d) == 64 && r.Intn(3) == 0 {
		d[0] = 0x19 // the v6.62 marker changes nothing about what makes an event malformed
	}
	return d, cl
}

func (b *builder) listenStep(client int) engine.Step {
	r := b.r
	st := engine.Step{Kind: "listen", Client: client}
	n := b.n(12)
	if r.Intn(5) == 0 {
		n = b.n(40)
	}
	senders := []string{b.prefix + ".100:60000", b.prefix + ".101:60000", b.prefix + ".77:54321"}
	if ap, err := netip.ParseAddrPort(b.sc.Clients[client].Bind); err == nil && ap.Port() != 0 && r.Intn(3) == 0 {
		// a sender that happens to use the very address and port this client sends its own requests from
		ip := ap.Addr().String()
		if ap.Addr().IsUnspecified() {
			ip = b.sc.HostIP
		}
		senders[r.Intn(2)] = fmt.Sprintf("%s:%d", ip, ap.Port())
	}
	span := time.Duration(1+r.Intn(500)) * time.Millisecond
	if r.Intn(30) == 0 {
		// a long burst of events while the application's callback is slow
		n = pick(r, 66, 70, 130, 200)
	}
	for i := 0; i < n; i++ {
		d, cl := b.eventDatagram()
		at := time.Duration(r.Int63n(int64(span)))
		if r.Intn(4) == 0 {
			at = pick(r, 0, 1, span/2, span)
		}
		st.Feed = append(st.Feed, engine.Emit{After: at, Via: "udp", From: senders[r.Intn(1+r.Intn(3))], Data: d, Class: cl})
	}
	if len(st.Feed) > 0 && r.Intn(6) == 0 {
		// a controller (or its v6.62 twin) says the same thing twice: the second datagram is an event like the first
		k := r.Intn(len(st.Feed))
		twin := st.Feed[k]
		twin.Data = append([]byte(nil), twin.Data...)
		if len(twin.Data) == 64 && r.Intn(2) == 0 {
			twin.Data[0] ^= 0x17 ^ 0x19 // 0x17 <-> 0x19
			if twin.Class == "valid" {
				twin.Class = "v19"
			} else if twin.Class == "v19" {
				twin.Class = "valid"
			}
		}
		twin.After += time.Duration(r.Intn(3))
		st.Feed = append(st.Feed[:k+1:k+1], append([]engine.Emit{twin}, st.Feed[k+1:]...)...)
	}
	// stop: before any datagram, between datagrams, or after the last one
	switch r.Intn(5) {
	case 0:
		st.StopAfter = 1
	case 1:
		st.StopAfter = span + time.Duration(r.Intn(100))*time.Millisecond + 1
	default:
		st.StopAfter = time.Duration(r.Int63n(int64(span))) + 1
	}
	if r.Intn(3) == 0 {
		for i := 0; i < 6; i++ {
			st.Holds = append(st.Holds, pick(r, 0, 0, time.Millisecond, span/3, span))
		}
	}
	if n > 60 {
		// all of them at (nearly) the same instant, the first callbacks slow
		at := time.Duration(r.Int63n(int64(span)))
		for i := range st.Feed {
			st.Feed[i].After = at + time.Duration(i/8)
		}
		st.Holds = []time.Duration{span / 4, span / 4, time.Millisecond}
		st.StopAfter = at + span + 1
	}
	switch r.Intn(24) {
	case 0:
		// the stop signal is already waiting when Listen is called: bound, connected, stopped - at once
		st.StopPending = true
	case 1:
		// traffic does not stop because the application wants to: datagrams keep coming, a few tens of milliseconds
		// apart, for seconds after the signal
		st.Holds = nil
		st.StopAfter = time.Duration(100+r.Intn(400)) * time.Millisecond
		gap := time.Duration(20+r.Intn(150)) * time.Millisecond
		for at := time.Duration(0); at < st.StopAfter+3*time.Second; at += gap {
			d, cl := b.eventDatagram()
			st.Feed = append(st.Feed, engine.Emit{After: at, Via: "udp", From: senders[r.Intn(2)], Data: d, Class: cl})
		}
	case 2:
		// one sender repeats the very same junk: as many errors as datagrams
		st.Holds = nil
		junk := b.datagram(pick(r, "wronglen", "garbage", "serial0", "wrongfn"), model.GetStatus, &model.Args{}, model.GenSerial(r))
		at := time.Duration(r.Int63n(int64(span)))
		for i := 12 + r.Intn(30); i > 0; i-- {
			at += time.Duration(r.Intn(3)) * time.Millisecond
			st.Feed = append(st.Feed, engine.Emit{After: at, Via: "udp", From: senders[0], Data: junk, Class: "junk-run"})
			if r.Intn(6) == 0 {
				d, cl := b.eventDatagram()
				st.Feed = append(st.Feed, engine.Emit{After: at, Via: "udp", From: senders[1], Data: d, Class: cl})
			}
		}
		if st.StopAfter < at+time.Millisecond {
			st.StopAfter = at + time.Millisecond
		}
	}
	st.OnErrFalse = r.Intn(4) == 0 // what OnError returns is the application's business: the listener goes on either way
	if st.OnErrFalse && r.Intn(2) == 0 {
		// malformed datagrams back to back
		k := r.Intn(len(st.Feed) + 1)
		at := time.Duration(r.Int63n(int64(span)))
		var burst []engine.Emit
		for i := 2 + r.Intn(3); i > 0; i-- {
			cl := pick(r, "wronglen", "garbage", "serial0", "wrongfn")
			burst = append(burst, engine.Emit{After: at, Via: "udp", From: senders[0], Data: b.datagram(cl, model.GetStatus, &model.Args{}, model.GenSerial(r)), Class: cl})
		}
		st.Feed = append(st.Feed[:k:k], append(burst, st.Feed[k:]...)...)
	}
	return st
}

func genC10(b *builder) {
	r := b.r
	sc := b.sc
	b.base(baseOpt{minCtl: 0, maxCtl: 3, maxClients: 2, fixedBind: 1})
	if r.Intn(10) == 0 {
		if ap, err := netip.ParseAddrPort(sc.Clients[0].Listen); err == nil {
			sc.Foreign = append(sc.Foreign, vnet.ForeignPort{Proto: "udp", Port: ap.Port()})
		}
	}
	if r.Intn(4) == 0 {
		// events keep their civil date and time in every process zone
		b.zone = b.drawZone()
	}
	if r.Intn(8) == 0 {
		// a transient receive error in the middle of the stream
		sc.Faults = append(sc.Faults, vnet.Fault{Kind: "udpread", Nth: r.Intn(6), Errno: pick(r, "ENOBUFS", "ECONNREFUSED", "EPERM")})
	}
	if r.Intn(8) == 0 && len(sc.Foreign) == 0 && len(sc.Faults) == 0 {
		// the application tries to listen while another listener of the same process holds the address, fails, and
		// tries again later with the same signal channel: that listener, too, stops when signalled - once
		first := b.listenStep(0)
		first.StopAfter = time.Duration(200+r.Intn(200)) * time.Millisecond
		first.Holds = nil
		first.StopPending = false
		sc.Tasks = append(sc.Tasks, engine.Task{Steps: []engine.Step{first}})
		early := engine.Step{Kind: "listen", Client: 0} // no stopper: it cannot start
		again := b.listenStep(0)
		again.SameQ = true
		again.Holds = nil
		again.StopPending = false
		again.StopAfter = time.Duration(50+r.Intn(200)) * time.Millisecond
		sc.Tasks = append(sc.Tasks, engine.Task{Start: time.Duration(1+r.Intn(100)) * time.Millisecond,
			Steps: []engine.Step{early, {Kind: "sleep", Delay: 500 * time.Millisecond}, again}})
		return
	}
	cycles := 1 + b.n(3)
	tk := engine.Task{}
	oneq := r.Intn(3) == 0 // the application has one signal channel for its whole life, as most do
	for i := 0; i < cycles; i++ {
		ls := b.listenStep(0)
		ls.SameQ = oneq && i > 0
		tk.Steps = append(tk.Steps, ls)
	}
	sc.Tasks = append(sc.Tasks, tk)
	if len(sc.Clients) > 1 && r.Intn(2) == 0 {
		t2 := engine.Task{Start: time.Duration(r.Intn(50)) * time.Millisecond}
		t2.Steps = append(t2.Steps, b.listenStep(1))
		sc.Tasks = append(sc.Tasks, t2)
	}
}

// ---- C17: insulation ----------------------------------------------------------------------------------

func genC17(b *builder) {
	r := b.r
	sc := b.sc
	b.base(baseOpt{minCtl: 1, maxCtl: 4, maxClients: 2, directed: 2, extraEndpoints: r.Intn(2) == 0, badDevAddrs: r.Intn(4) == 0})
	tk := engine.Task{}
	if r.Intn(4) > 0 {
		tk.Steps = append(tk.Steps, engine.Step{Kind: "mutate-config", Client: 0})
		if len(sc.Clients) > 1 {
			tk.Steps = append(tk.Steps, engine.Step{Kind: "mutate-config", Client: 1})
		}
	}
	listening := map[int]bool{}
	var t2 engine.Task // listeners run beside the history
	ns := 1 + b.n(6)
	for s := 0; s < ns; s++ {
		client := r.Intn(len(sc.Clients))
		T := sc.Clients[client].Timeout
		switch r.Intn(8) {
		case 7:
			// a burst of events while the callback of an earlier one is still running: every status must carry its own datagram
			if sc.Clients[client].Listen != "" && !listening[client] {
				listening[client] = true
				ls := b.listenStep(client)
				for i := range ls.Feed {
					if r.Intn(2) == 0 && i > 0 {
						ls.Feed[i].After = ls.Feed[i-1].After
					}
				}
				t2.Steps = append(t2.Steps, ls)
			}
			continue
		case 0:
			tk.Steps = append(tk.Steps, engine.Step{Kind: "mutate-devlist", Client: client, Delay: time.Duration(r.Intn(2))})
			continue
		case 1:
			a := model.GenArgs(r, model.PutCard, model.GenSerial(r))
			tk.Steps = append(tk.Steps, engine.Step{Kind: "clone", Client: client, Args: a})
			continue
		}
		op := b.anyOp()
		if r.Intn(2) == 0 {
			op = pick(r, model.GetDevice, model.GetDevices, model.GetStatus, model.GetCardByIndex, model.GetCardByID, model.GetTimeProfile, model.GetListener, model.PutCard, model.SetTimeProfile, model.AddTask, model.ActivateKeypads)
		}
		serial, known := b.target()
		a := b.args(op, serial, known)
		st := b.callStep(client, op, a, known, b.early(T)/2, model.ReplyOpts{})
		if op == model.GetDevices {
			for i, c := range b.ctls {
				d := model.GenReply(r, model.GetDevice, &a, c.serial, model.ReplyOpts{})
				st.Plan.Emits = append(st.Plan.Emits, engine.Emit{After: time.Duration(i+1) * T / 8, Via: "udp", From: fmt.Sprintf("%s:%d", c.ip, c.port), Data: d, Class: "valid"})
			}
		}
		st.Scribble = r.Intn(2) == 0
		st.MutateRes = r.Intn(4) == 0
		tk.Steps = append(tk.Steps, st)
	}
	sc.Tasks = append(sc.Tasks, tk)
	if len(t2.Steps) > 0 {
		sc.Tasks = append(sc.Tasks, t2)
	}
}

// ---- C04: nothing crashes ---------------------------------------------------------------------------

func genC04(b *builder) {
	r := b.r
	sc := b.sc
	b.base(baseOpt{minCtl: 1, maxCtl: 3, maxClients: 2})
	if r.Intn(6) == 0 { // a client built from zero values only
		sc.Clients = append(sc.Clients, engine.ClientCfg{Timeout: pick(r, timeouts...), NilDevs: true})
	}
	if r.Intn(12) == 0 { // the debug flag dumps every message: more code on the receive paths
		for i := range sc.Clients {
			sc.Clients[i].Debug = true
		}
	}
	nt := 1 + b.n(2)
	for t := 0; t < nt; t++ {
		tk := engine.Task{}
		ns := 1 + b.n(5)
		for s := 0; s < ns; s++ {
			client := r.Intn(len(sc.Clients))
			T := sc.Clients[client].Timeout
			if r.Intn(8) == 0 && t == 0 && sc.Clients[client].Listen != "" {
				st := b.listenStep(client)
				for i := range st.Feed {
					if r.Intn(2) == 0 {
						serial := model.GenSerial(r)
						st.Feed[i].Data = pick(r, model.GenWild(r, model.GetStatus, serial), b.datagram("garbage", model.GetStatus, &model.Args{}, serial))
						st.Feed[i].Class = "wild"
					}
				}
				tk.Steps = append(tk.Steps, st)
				continue
			}
			op := b.anyOp()
			serial, known := b.target()
			var a model.Args
			if r.Intn(2) == 0 {
				a = model.GenHostile(r, op, serial)
			} else {
				a = b.args(op, serial, known)
			}
			st := engine.Step{Kind: "call", Client: client, Op: op, Args: a}
			rt := b.route(client, op, a.Serial)
			if rt.Path == "tcp" {
				st.Plan.TCP = "accept"
			}
			n := 1 + r.Intn(3)
			for i := 0; i < n; i++ {
				var d []byte
				cl := "wild"
				rop := op
				if op == model.GetDevices {
					rop = model.GetDevice
				}
				switch r.Intn(6) {
				case 0:
					cl = "garbage"
					d = b.datagram(cl, rop, &a, a.Serial)
				case 1:
					cl = pick(r, classes...)
					d = b.datagram(cl, rop, &a, a.Serial)
				case 2:
					cl = "valid-ood"
					d = b.datagram(cl, rop, &a, a.Serial)
				case 3:
					cl = "valid"
					d = b.datagram(cl, rop, &a, a.Serial)
				default:
					s := a.Serial
					if op == model.GetDevices {
						s = model.GenSerial(r)
					}
					d = model.GenWild(r, rop, s)
				}
				st.Plan.Emits = append(st.Plan.Emits, b.emit(rt, known, b.early(T), d, cl))
			}
			tk.Steps = append(tk.Steps, st)
		}
		sc.Tasks = append(sc.Tasks, tk)
	}
}

// ---- C08: concurrency ---------------------------------------------------------------------------------

func genC08(b *builder) {
	r := b.r
	sc := b.sc
	b.base(baseOpt{minCtl: 1, maxCtl: 4, maxClients: 3, fixedBind: pick(r, 0, 0, 2)})
	if r.Intn(6) == 0 && len(sc.Clients) > 1 {
		// one of the clients is configured with a bind address this host does not have (same port as the others):
		// its own calls fail - and that is all that happens
		for _, c := range sc.Clients {
			if ap, err := netip.ParseAddrPort(c.Bind); err == nil && ap.Port() != 0 {
				sc.Clients[len(sc.Clients)-1].Bind = fmt.Sprintf("%s.250:%d", b.prefix, ap.Port())
				break
			}
		}
	}
	if r.Intn(12) == 0 {
		// another process sits on the fixed bind port for the whole run: calls from that port fail to bind - and
		// that is all that happens (no other port is tried, nothing about the client changes)
		for _, c := range sc.Clients {
			if ap, err := netip.ParseAddrPort(c.Bind); err == nil && ap.Port() != 0 {
				sc.Foreign = append(sc.Foreign, vnet.ForeignPort{Proto: "udp", Port: ap.Port()}, vnet.ForeignPort{Proto: "tcp", Port: ap.Port()})
				break
			}
		}
	}
	if r.Intn(12) == 0 {
		// one send fails (network unreachable, no buffers): that call fails - the others are none the worse for it
		sc.Faults = append(sc.Faults, vnet.Fault{Kind: pick(r, "udpwrite", "udpwrite", "tcpwrite"), Nth: r.Intn(4), Errno: pick(r, "ENETUNREACH", "ENOBUFS", "EPERM", "EPIPE")})
	}
	nt := 2 + b.n(5)
	if r.Intn(3) == 0 {
		nt = 2
	}
	crowd := r.Intn(20) == 0
	if crowd {
		nt = 17 + r.Intn(10)
	}
	dated := r.Intn(8) == 0 // every call carries calendar dates in its reply
	pool := model.Date{Y: 1900 + r.Intn(200), M: 1 + r.Intn(12), D: 1 + r.Intn(28)}
	listening := false
	for t := 0; t < nt; t++ {
		tk := engine.Task{}
		if r.Intn(3) == 0 {
			tk.Start = time.Duration(r.Intn(4)) * time.Millisecond
		}
		ns := 1 + b.n(4)
		if crowd {
			ns = 1
		}
		for s := 0; s < ns; s++ {
			client := r.Intn(len(sc.Clients))
			T := sc.Clients[client].Timeout
			switch {
			case crowd || dated:
			case !listening && t > 0 && r.Intn(10) == 0:
				// a listener started, fed and stopped alongside the calls
				listening = true
				tk.Steps = append(tk.Steps, b.listenStep(client))
				continue
			case r.Intn(8) == 0:
				// discovery alongside
				st := engine.Step{Kind: "call", Client: client, Op: model.GetDevices}
				for _, c := range b.ctls {
					if r.Intn(4) > 0 {
						d := model.GenReply(r, model.GetDevice, &model.Args{}, c.serial, model.ReplyOpts{})
						st.Plan.Emits = append(st.Plan.Emits, engine.Emit{After: b.early(T), Via: "udp", From: fmt.Sprintf("%s:%d", c.ip, c.port), Data: d, Class: "valid"})
					}
				}
				tk.Steps = append(tk.Steps, st)
				continue
			}
			op := b.anyCallOp()
			if dated {
				op = pick(r, model.GetCardByIndex, model.GetCardByID, model.GetTimeProfile, model.GetDevice, model.GetStatus, model.GetEvent, model.GetTime)
			}
			serial, known := b.target()
			if known == nil || r.Intn(3) == 0 {
				// same controller as somebody else, whenever possible
				c := &b.ctls[0]
				serial, known = c.serial, c
			}
			a := b.args(op, serial, known)
			st := b.callStep(client, op, a, known, b.early(T), model.ReplyOpts{Junk: true})
			if dated && r.Intn(2) == 0 {
				// the dates of concurrent replies are relatives: same day and month, years 64 apart - whatever
				// table a decoder might keep them in, these are the ones that end up in the same place
				for i := range st.Plan.Emits {
					if e := &st.Plan.Emits[i]; e.Class == "valid" && len(e.Data) == 64 {
						for _, f := range model.ReplyFields(op) {
							if f.Kind == model.KDate {
								y := pool.Y + 64*r.Intn(4)
								e.Data[f.Off], e.Data[f.Off+1], e.Data[f.Off+2], e.Data[f.Off+3] = bcd(y/100), bcd(y%100), bcd(pool.M), bcd(pool.D)
							}
						}
					}
				}
			}
			rt := b.route(client, op, serial)
			if rt.Path == "broadcast" && r.Intn(3) == 0 {
				// everybody on the network hears a broadcast: other controllers answer too, and noise is noise
				for i := 1 + r.Intn(3); i > 0; i-- {
					cl := pick(r, "wrongserial", "wrongserial", "wronglen", "garbage")
					d := b.datagram(cl, op, &a, serial)
					if cl == "garbage" && len(d) >= 8 {
						d[4] ^= 0xff // never S's serial
					}
					e := b.emit(rt, nil, b.early(T), d, cl)
					e.From = fmt.Sprintf("%s.%d:60000", b.prefix, 110+r.Intn(80))
					st.Plan.Emits = append(st.Plan.Emits, e)
				}
			}
			if r.Intn(10) == 0 && len(st.Plan.Emits) > 0 {
				// this controller is slow or silent: the call may fail, the ones queued behind it must not
				if r.Intn(2) == 0 {
					st.Plan.Emits = nil
				} else {
					for i := range st.Plan.Emits {
						if st.Plan.Emits[i].Class == "valid" {
							st.Plan.Emits[i].After = T + time.Duration(r.Int63n(int64(T)))
							st.Plan.Emits[i].Class = "late"
						}
					}
				}
			}
			if st.Plan.TCP == "accept" {
				// connecting takes part of the timeout as well
				st.Plan.ConnDelay = b.early(T) / 3
				for i := range st.Plan.Emits {
					st.Plan.Emits[i].After = b.early(T) / 2
				}
			}
			tk.Steps = append(tk.Steps, st)
		}
		sc.Tasks = append(sc.Tasks, tk)
	}
}

// ---- C13: civil dates in every zone ----------------------------------------------------------------

var zonesWithHoles []string

func holes() []string {
	if zonesWithHoles == nil {
		for _, n := range zones.Names {
			if len(zones.MissingMidnights(n)) > 0 {
				zonesWithHoles = append(zonesWithHoles, n)
			}
		}
	}
	return zonesWithHoles
}

type zoneGen struct {
	r    *rand.Rand
	name string
	loc  *time.Location
	days []zones.Day
	gaps []zones.Gap
}

// zoneOf prepares the date generator of a named zone (nil if the tz database does not know it).
func zoneOf(r *rand.Rand, name string) *zoneGen {
	loc := zones.Load(name)
	if loc == nil {
		return nil
	}
	return &zoneGen{r: r, name: name, loc: loc, days: zones.MissingMidnights(name), gaps: zones.Gaps(name)}
}

// around draws a civil date-time at, inside or next to one of the intervals the zone's clock skipped.
func (z *zoneGen) around(minY, maxY int) (y, mo, d, h, mi, s int, ok bool) {
	if len(z.gaps) == 0 {
		return
	}
	for i := 0; i < 20; i++ {
		g := z.gaps[z.r.Intn(len(z.gaps))]
		if g.Y < minY || g.Y > maxY {
			continue
		}
		off := pick(z.r, -1, 0, 1, g.Len/2, g.Len-1, g.Len, g.Len+1, -3600, g.Len+3600, z.r.Intn(g.Len+1))
		y, mo, d, h, mi, s = g.At(off)
		if y < minY || y > maxY || zones.NoInstant(z.loc, y, mo, d) {
			continue
		}
		return y, mo, d, h, mi, s, true
	}
	return
}

// drawZone gives the run a process time zone (half of the time one in which some local midnights are missing).
func (b *builder) drawZone() *zoneGen {
	r := b.r
	z := &zoneGen{r: r}
	for z.loc == nil {
		if r.Intn(2) == 0 && len(holes()) > 0 {
			z.name = pick(r, holes()...)
		} else {
			z.name = pick(r, zones.Names...)
		}
		z.loc = zones.Load(z.name)
	}
	z.days = zones.MissingMidnights(z.name)
	z.gaps = zones.Gaps(z.name)
	b.sc.TZ = z.name
	return z
}

// date draws a date: half of them days whose local midnight is missing in the zone, and their neighbours.
func (z *zoneGen) date(minY, maxY int) model.Date {
	r := z.r
	for i := 0; i < 50; i++ {
		var d model.Date
		if len(z.days) > 0 && r.Intn(2) == 0 {
			x := z.days[r.Intn(len(z.days))]
			t := time.Date(x.Y, time.Month(x.M), x.D, 12, 0, 0, 0, time.UTC).AddDate(0, 0, pick(r, 0, 0, 0, -1, 1))
			d = model.Date{Y: t.Year(), M: int(t.Month()), D: t.Day()}
		} else {
			d = model.GenDate(r)
		}
		if d.Y < minY || d.Y > maxY {
			continue
		}
		if zones.NoInstant(z.loc, d.Y, d.M, d.D) {
			continue
		}
		return d
	}
	return model.Date{Y: 2024, M: 6, D: 15}
}

func (z *zoneGen) clock() (int, int, int) {
	r := z.r
	switch r.Intn(4) {
	case 0:
		return pick(r, 0, 0, 1, 2, 3, 23), pick(r, 0, 30, 59), pick(r, 0, 59)
	}
	return r.Intn(24), r.Intn(60), r.Intn(60)
}

// fix overwrites the date-bearing fields of a reply with zone-biased values.
func (z *zoneGen) fix(op model.Op, b []byte) {
	for _, f := range model.ReplyFields(op) {
		switch f.Kind {
		case model.KDate:
			if b[f.Off] == 0 && b[f.Off+1] == 0 && b[f.Off+2] == 0 && b[f.Off+3] == 0 && z.r.Intn(2) == 0 {
				continue
			}
			d := z.date(1, 9999)
			b[f.Off], b[f.Off+1], b[f.Off+2], b[f.Off+3] = bcd(d.Y/100), bcd(d.Y%100), bcd(d.M), bcd(d.D)
		case model.KDateTime:
			d := z.date(1, 9999)
			h, mi, s := z.clock()
			if y, mo, dd, hh, mm, ss, ok := z.around(1900, 2100); ok && z.r.Intn(3) == 0 {
				d, h, mi, s = model.Date{Y: y, M: mo, D: dd}, hh, mm, ss
			}
			copy(b[f.Off:], []byte{bcd(d.Y / 100), bcd(d.Y % 100), bcd(d.M), bcd(d.D), bcd(h), bcd(mi), bcd(s)})
		case model.KSysDate:
			d := z.date(2000, 2068)
			b[f.Off], b[f.Off+1], b[f.Off+2] = bcd(d.Y%100), bcd(d.M), bcd(d.D)
		case model.KSysTime:
			h, mi, s := z.clock()
			b[f.Off], b[f.Off+1], b[f.Off+2] = bcd(h), bcd(mi), bcd(s)
		}
	}
}

// fixStatus: like fix, and a third of the time the controller's system date and time (two separate fields of a
// status) together name a civil time at, inside or next to an interval the zone skipped.
func (z *zoneGen) fixStatus(b []byte) {
	z.fix(model.GetStatus, b)
	if y, mo, d, h, mi, s, ok := z.around(2000, 2068); ok && z.r.Intn(3) == 0 {
		b[51], b[52], b[53] = bcd(y%100), bcd(mo), bcd(d)
		b[37], b[38], b[39] = bcd(h), bcd(mi), bcd(s)
	}
}

func bcd(v int) byte { return byte((v/10)%10)<<4 | byte(v%10) }

func genC13(b *builder) {
	r := b.r
	sc := b.sc
	b.base(baseOpt{minCtl: 1, maxCtl: 2, maxClients: 1})
	z := b.drawZone()
	sc.ParseDates = r.Intn(2) == 0
	// the zone a controller is configured with has no say in how its dates and times are read: now and then the
	// civil times come from the holes of *that* zone (they exist in the process zone, mostly)
	zoneFor := func(known *ctl) *zoneGen {
		if known != nil && known.tz != "" && r.Intn(2) == 0 {
			if dz := zoneOf(r, known.tz); dz != nil {
				return dz
			}
		}
		return z
	}

	dated := []model.Op{model.PutCard, model.SetTimeProfile, model.AddTask, model.GetCardByIndex, model.GetCardByID, model.GetTimeProfile,
		model.GetDevice, model.GetTime, model.SetTime, model.GetEvent, model.GetStatus}
	tk := engine.Task{}
	ns := 1 + b.n(5)
	for s := 0; s < ns; s++ {
		T := sc.Clients[0].Timeout
		if r.Intn(8) == 0 && sc.Clients[0].Listen != "" {
			st := engine.Step{Kind: "listen", Client: 0, StopAfter: 200 * time.Millisecond}
			n := 1 + r.Intn(6)
			for i := 0; i < n; i++ {
				es, ek := b.target()
				d := model.GenReply(r, model.GetStatus, &model.Args{}, es, model.ReplyOpts{V19: r.Intn(5) == 0})
				zoneFor(ek).fixStatus(d)
				st.Feed = append(st.Feed, engine.Emit{After: time.Duration(i+1) * 10 * time.Millisecond, Via: "udp", From: b.prefix + ".100:60000", Data: d, Class: "valid"})
			}
			tk.Steps = append(tk.Steps, st)
			continue
		}
		op := pick(r, dated...)
		serial, known := b.target()
		a := b.args(op, serial, known)
		switch op {
		case model.PutCard:
			a.Card.From, a.Card.To = z.date(1, 9999), z.date(1, 9999)
			a.Formats = nil
		case model.SetTimeProfile:
			a.Profile.From, a.Profile.To = z.date(1, 9999), z.date(1, 9999)
		case model.AddTask:
			a.Task.From, a.Task.To = z.date(1, 9999), z.date(1, 9999)
		case model.SetTime:
			if r.Intn(2) == 0 {
				z.zoneArgs(op, &a)
			}
		}
		st := b.callStep(0, op, a, known, b.early(T)/2, model.ReplyOpts{})
		for i := range st.Plan.Emits {
			if op == model.GetStatus {
				zoneFor(known).fixStatus(st.Plan.Emits[i].Data)
			} else {
				zoneFor(known).fix(op, st.Plan.Emits[i].Data)
			}
			if op == model.GetCardByID {
				// keep the echoed card number
				d := st.Plan.Emits[i].Data
				d[8], d[9], d[10], d[11] = byte(a.U32), byte(a.U32>>8), byte(a.U32>>16), byte(a.U32>>24)
			}
		}
		tk.Steps = append(tk.Steps, st)
		if (op == model.GetCardByIndex || op == model.GetCardByID) && r.Intn(2) == 0 {
			tk.Steps = append(tk.Steps, engine.Step{Kind: "putback", Client: 0, Op: model.PutCard, Args: model.Args{Serial: serial}})
		}
	}
	sc.Tasks = append(sc.Tasks, tk)
}
