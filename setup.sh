#!/bin/bash
# Builds the framework from files on disk (offline) and warms the Go build cache for go1.26.8,
# with and without the race detector.
set -e
cd "$(dirname "$0")"
export GOFLAGS=-mod=mod GOPROXY=off GOSUMDB=off GOTOOLCHAIN=local
mkdir -p bin evidence replays
go1.26.8 build -o bin/driver ./cmd/driver
go1.26.8 build -o bin/rewrite ./cmd/rewrite
W=$(mktemp -d "${TMPDIR:-/tmp}/verif-setup-XXXXXX")
trap 'rm -rf "$W"' EXIT
bin/rewrite -repo /repo -out "$W"
go1.26.8 test -c -overlay "$W/overlay.json" -o "$W/sim.test" ./sim/simtest/
go1.26.8 test -c -race -gcflags='verif/...=-race=false' -overlay "$W/overlay.json" -o "$W/sim-race.test" ./sim/simtest/
go1.26.8 test -count=1 ./sim/model/ 
echo "setup ok"
