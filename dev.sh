#!/bin/bash
# developer loop: ./dev.sh <prop> <runs> [race]  - one worker, prints signatures and counters
cd "$(dirname "$0")"
export GOFLAGS=-mod=mod GOPROXY=off GOSUMDB=off GOTOOLCHAIN=local
W=$(mktemp -d /tmp/vdev.XXXX); trap 'rm -rf $W' EXIT
go1.26.8 run ./cmd/rewrite -repo /repo ${SRC:+-src $SRC} -out $W || exit 2
if [ "$3" = race ]; then
go1.26.8 test -c -race -gcflags='verif/...=-race=false' -overlay $W/overlay.json -o $W/sim.test ./sim/simtest/ || exit 2
else
go1.26.8 test -c -overlay $W/overlay.json -o $W/sim.test ./sim/simtest/ || exit 2
fi
VERIF_PROP=$1 VERIF_N=$2 VERIF_SEED0=${SEED0:-0} VERIF_OUT=$W/out.jsonl GORACE="log_path=$W/race halt_on_error=0 exitcode=0" $W/sim.test -test.run TestWorker -test.count=1 >$W/stdout.txt 2>$W/err.txt || { echo "worker failed"; tail -40 $W/stdout.txt $W/err.txt; }
ls $W | grep race | head -3
python3 - $W/out.jsonl "$4" <<'PY'
import json,sys,collections
sigs=collections.Counter(); first={}
for l in open(sys.argv[1]):
    r=json.loads(l)
    if r.get('kind')=='summary':
        print(r['property'],'runs',r['runs'],'failing',r['failing'],'calls',r['calls'],'wall',round(r['wall_s'],2),'shapes',len(r['shapes']),'det',r['det_checked'],r['det_bad'])
        if len(sys.argv)>2 and sys.argv[2]=='c':
            for k,v in sorted(r['counters'].items()): print('    ',k,v)
    elif r.get('kind')=='nondeterminism':
        print('NONDET',r['seed'],r['diff'])
    elif 'signature' in r:
        sigs[r['signature']]+=1
        first.setdefault(r['signature'], r)
for s,n in sigs.most_common():
    print('  ',n,s, 'seed',first[s]['seed'])
    v=first[s].get('violations')
    if v: print('      ',v[0]['detail'][:1200].replace('\n','\n       '))
PY
cat $W/race* 2>/dev/null | head -60
