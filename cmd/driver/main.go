// driver runs one property check: rewrite /repo into an overlay, build the worker binary, sweep seeds
// over all cores, minimise and replay failures, match known findings, write the evidence file.
//
// exit 0: property held on everything explored (known findings are printed as KNOWN-FINDING lines)
// exit 1: VIOLATION property=<id> replay=<path> printed
// exit 2: infrastructure trouble (build failure, unsupported construct, nondeterminism, watchdog)
package main

import (
	"bufio"
	"bytes"
	"encoding/json"
	"flag"
	"fmt"
	"os"
	"os/exec"
	"path/filepath"
	"regexp"
	"runtime"
	"sort"
	"strconv"
	"strings"
	"sync"
	"syscall"
	"time"
)

const goBin = "go1.26.8"

type tier struct {
	runs    int // total simulated runs (0: time budget)
	budgetS int // per-worker wall clock budget in seconds
	minRuns int
}

// per-property run budgets (quick: fixed run counts so that evidence is repeatable)
var quick = map[string]tier{
	"C01": {runs: 48000}, "C02": {runs: 96000}, "C03": {runs: 96000}, "C04": {runs: 48000}, "C06": {runs: 64000},
	"C07": {runs: 96000}, "C08": {runs: 16000}, "C09": {runs: 64000}, "C10": {runs: 16000}, "C11": {runs: 64000},
	"C13": {runs: 64000}, "C17": {runs: 64000},
}

// runs that are each the only run of a fresh process (quick tier; ten times as many in the thorough tier)
var coldRuns = map[string]int{"C01": 96, "C08": 96, "C02": 96, "C03": 96, "C06": 32, "C09": 32, "C17": 32}

const coldIndex0 = 900000000 // run indices of the cold-start runs

var thorough = map[string]tier{
	"C01": {budgetS: 600}, "C02": {budgetS: 600}, "C03": {budgetS: 600}, "C04": {budgetS: 600}, "C06": {budgetS: 480},
	"C07": {budgetS: 480}, "C08": {budgetS: 900}, "C09": {budgetS: 600}, "C10": {budgetS: 900}, "C11": {budgetS: 480},
	"C13": {budgetS: 600}, "C17": {budgetS: 480},
}

type Finding struct {
	Status   string `json:"status"` // known | fixed
	Property string `json:"property"`
	ID       string `json:"id"`
	Sig      string `json:"sig"`    // regexp over the violation signature
	Detail   string `json:"detail"` // regexp over the violation detail ("" = any)
	What     string `json:"what"`
	Commit   string `json:"commit,omitempty"`
}

type Violation struct {
	Prop   string `json:"prop"`
	Code   string `json:"code"`
	Sig    string `json:"sig"`
	Detail string `json:"detail"`
	Task   int    `json:"task"`
	Step   int    `json:"step"`
}

type Record struct {
	Kind       string          `json:"kind,omitempty"`
	Prop       string          `json:"property"`
	Seed       int64           `json:"seed"`
	Code       string          `json:"code"`
	Sig        string          `json:"signature"`
	Violations []Violation     `json:"violations"`
	Scenario   json.RawMessage `json:"scenario"`
	TraceHash  string          `json:"trace_hash"`
	TraceTail  []string        `json:"trace_tail,omitempty"`
	Minimised  bool            `json:"minimised"`
	Note       string          `json:"note,omitempty"`
	RaceLog    string          `json:"race_log,omitempty"`
}

type Summary struct {
	Kind       string         `json:"kind"`
	Runs       int            `json:"runs"`
	Failing    int            `json:"failing"`
	SimTimeNs  int64          `json:"sim_time_ns"`
	Steps      int64          `json:"sched_steps"`
	Calls      int            `json:"calls"`
	WallS      float64        `json:"wall_s"`
	Counters   map[string]int `json:"counters"`
	Shapes     []uint64       `json:"shapes"`
	Interleave []uint64       `json:"interleave"`
	Nontrivial int            `json:"nontrivial"`
	DetChecked int            `json:"det_checked"`
	DetBad     int            `json:"det_bad"`
	Samples    []any          `json:"samples"`
	FirstSeed  int64          `json:"first_seed"`
	LastSeed   int64          `json:"last_seed"`
	RaceBuild  bool           `json:"race_build"`
	Seqs       []string       `json:"seqs"`
	SeqSpace   int            `json:"seq_space"`
	Cold       bool           `json:"-"`
}

var (
	infraMu sync.Mutex
	infra   []string // runs the harness could not start
	verifDir string
	workDir  string
	env      []string
)

func die2(format string, a ...any) {
	fmt.Fprintf(os.Stderr, "check: "+format+"\n", a...)
	cleanup()
	os.Exit(2)
}

func cleanup() {
	if workDir != "" && os.Getenv("VERIF_KEEP_WORK") == "" {
		os.RemoveAll(workDir)
	}
}

func run(dir string, extraEnv []string, name string, args ...string) ([]byte, error) {
	cmd := exec.Command(name, args...)
	cmd.Dir = dir
	cmd.Env = append(append([]string{}, env...), extraEnv...)
	var buf bytes.Buffer
	cmd.Stdout = &buf
	cmd.Stderr = &buf
	err := cmd.Run()
	return buf.Bytes(), err
}

func main() {
	replayFile := flag.String("replay", "", "replay file")
	repo := flag.String("repo", "/repo", "repository")
	flag.Parse()
	args := flag.Args()
	if len(args) < 1 {
		fmt.Fprintln(os.Stderr, "usage: driver [-replay file] <property> [quick|thorough]")
		os.Exit(2)
	}
	prop := args[0]
	tierName := "quick"
	if len(args) > 1 {
		tierName = args[1]
	}
	if t := os.Getenv("VERIF_TIER"); t != "" && len(args) < 2 {
		tierName = t
	}

	var err error
	verifDir, err = os.Getwd()
	if err != nil {
		die2("%v", err)
	}
	if _, err := os.Stat(filepath.Join(verifDir, "sim", "simtest")); err != nil {
		die2("must run in /verif (%v)", err)
	}

	env = os.Environ()
	env = append(env, "GOFLAGS=-mod=mod", "GOPROXY=off", "GOSUMDB=off", "GOTOOLCHAIN=local", "CGO_ENABLED=1")

	tmp := os.Getenv("TMPDIR")
	if tmp == "" {
		tmp = "/tmp"
	}
	workDir, err = os.MkdirTemp(tmp, "verif-"+prop+"-")
	if err != nil {
		die2("%v", err)
	}
	defer cleanup()

	seed := int64(1)
	if v := os.Getenv("VERIF_SEED"); v != "" {
		if n, err := strconv.ParseInt(v, 10, 64); err == nil {
			seed = n
		}
	}
	if seed < 0 {
		seed = -seed
	}
	seed %= 1000000000

	start := time.Now()

	// 1. overlay
	rwArgs := []string{"run", "./cmd/rewrite", "-repo", *repo, "-out", workDir}
	if alt := os.Getenv("VERIF_SRC"); alt != "" {
		// development aid: judge an edited copy of the repository without touching /repo
		rwArgs = append(rwArgs, "-src", alt)
	}
	if out, err := run(verifDir, nil, goBin, rwArgs...); err != nil {
		die2("rewrite failed:\n%s", out)
	}

	// 2. worker binaries
	race := prop == "C08" || prop == "C10"
	bin := filepath.Join(workDir, "sim.test")
	if out, err := run(verifDir, nil, goBin, "test", "-c", "-overlay", filepath.Join(workDir, "overlay.json"), "-o", bin, "./sim/simtest/"); err != nil {
		die2("build failed:\n%s", out)
	}
	raceBin := ""
	if race {
		raceBin = filepath.Join(workDir, "sim-race.test")
		if out, err := run(verifDir, nil, goBin, "test", "-c", "-race", "-gcflags=verif/...=-race=false", "-overlay", filepath.Join(workDir, "overlay.json"), "-o", raceBin, "./sim/simtest/"); err != nil {
			die2("race build failed:\n%s", out)
		}
	}

	if *replayFile != "" {
		os.Exit(doReplay(prop, bin, raceBin, *replayFile))
	}

	tr := quick[prop]
	if tierName == "thorough" {
		tr = thorough[prop]
	}
	if tr.runs == 0 && tr.budgetS == 0 {
		die2("no check registered for property %s", prop)
	}
	if v := os.Getenv("VERIF_RUNS"); v != "" {
		if n, err := strconv.Atoi(v); err == nil {
			tr = tier{runs: n}
		}
	}
	if v := os.Getenv("VERIF_BUDGET_S"); v != "" {
		if n, err := strconv.Atoi(v); err == nil {
			tr = tier{budgetS: n}
		}
	}

	workers := runtime.NumCPU()
	if v := os.Getenv("VERIF_WORKERS"); v != "" {
		if n, err := strconv.Atoi(v); err == nil && n > 0 {
			workers = n
		}
	}

	type job struct {
		bin  string
		race bool
	}
	jobs := []job{{bin, false}}
	if race {
		// half of the cores run the race-instrumented binary (the other oracles run in both)
		jobs = []job{{bin, false}, {raceBin, true}}
	}

	var sums []Summary
	var recs []Record
	var nondet []string
	var crashes []string
	var mu sync.Mutex
	var wg sync.WaitGroup

	watchdog := 15 * time.Minute
	if tr.budgetS > 0 {
		watchdog = time.Duration(tr.budgetS)*time.Second + 10*time.Minute
	}

	// cold starts: what the library initialises lazily is initialised by the first calls a process makes, so a
	// number of runs are each the first (and only) run of a fresh process, with a storm scenario (gen.Cold)
	cold := coldRuns[prop]
	if tierName == "thorough" {
		cold *= 10
	}
	if os.Getenv("VERIF_RUNS") != "" || os.Getenv("VERIF_SRC_NOCOLD") != "" {
		cold = 0
	}
	if cold > 0 {
		sem := make(chan struct{}, workers)
		var cwg sync.WaitGroup
		for k := 0; k < cold; k++ {
			k := k
			j := jobs[k%len(jobs)]
			cwg.Add(1)
			sem <- struct{}{}
			go func() {
				defer func() { <-sem; cwg.Done() }()
				outF := filepath.Join(workDir, fmt.Sprintf("cold.%d.jsonl", k))
				e := []string{
					"VERIF_PROP=" + prop, "VERIF_MODE=sweep", "VERIF_COLD=1", fmt.Sprintf("VERIF_BASE=%d", seed),
					fmt.Sprintf("VERIF_SEED0=%d", coldIndex0+k), "VERIF_STRIDE=1", "VERIF_N=1", "VERIF_DET_EVERY=0",
					"VERIF_OUT=" + outF, "VERIF_PROGRESS=" + filepath.Join(workDir, fmt.Sprintf("cprog.%d", k)), "VERIF_TIER=" + tierName,
					"GORACE=log_path=" + filepath.Join(workDir, fmt.Sprintf("crace.%d", k)) + " halt_on_error=0 exitcode=0",
				}
				out, err := runWorker(j.bin, e, watchdog)
				s, r, nd := parseOut(outF)
				mu.Lock()
				defer mu.Unlock()
				for i := range s {
					s[i].Cold = true
				}
				sums = append(sums, s...)
				recs = append(recs, r...)
				nondet = append(nondet, nd...)
				if err != nil && len(s) == 0 {
					sd := seed*1000000000 + int64(coldIndex0+k)
					crashes = append(crashes, fmt.Sprintf("%d|%d|%s", coldIndex0+k, sd, fmt.Sprintf("cold-start run %d (seed %d) died: %v\n%s", k, sd, err, lastLines(out, 40))))
				}
			}()
		}
		cwg.Wait()
	}

	for w := 0; w < workers; w++ {
		w := w
		j := jobs[w%len(jobs)]
		wg.Add(1)
		go func() {
			defer wg.Done()
			idx0 := int64(w)
			for attempt := 0; attempt < 6; attempt++ {
				outF := filepath.Join(workDir, fmt.Sprintf("out.%d.%d.jsonl", w, attempt))
				progF := filepath.Join(workDir, fmt.Sprintf("prog.%d", w))
				e := []string{
					"VERIF_PROP=" + prop, "VERIF_MODE=sweep", fmt.Sprintf("VERIF_BASE=%d", seed),
					fmt.Sprintf("VERIF_SEED0=%d", idx0), fmt.Sprintf("VERIF_STRIDE=%d", workers),
					"VERIF_OUT=" + outF, "VERIF_PROGRESS=" + progF, "VERIF_TIER=" + tierName,
					"GORACE=log_path=" + filepath.Join(workDir, fmt.Sprintf("race.%d", w)) + " halt_on_error=0 exitcode=0",
				}
				n := 0
				if tr.runs > 0 {
					n = (tr.runs + workers - 1) / workers
					n -= int((idx0 - int64(w)) / int64(workers))
					if n <= 0 {
						return
					}
					e = append(e, fmt.Sprintf("VERIF_N=%d", n))
				} else {
					left := time.Duration(tr.budgetS)*time.Second - time.Since(start)
					if left < 5*time.Second {
						return
					}
					e = append(e, "VERIF_N=0", fmt.Sprintf("VERIF_BUDGET_S=%d", int(left.Seconds())))
				}
				out, err := runWorker(j.bin, e, watchdog)
				s, r, nd := parseOut(outF)
				mu.Lock()
				sums = append(sums, s...)
				recs = append(recs, r...)
				nondet = append(nondet, nd...)
				mu.Unlock()
				if err == nil || len(s) > 0 {
					// a summary was written: the sweep ran to its end (the testing package marks the test
					// as failed when the race detector reported anything; that is the oracle's business)
					return
				}
				// the worker died: a panic in a goroutine of the library, or trouble of ours
				pb, _ := os.ReadFile(progF)
				var idx, sd int64
				fmt.Sscanf(string(pb), "%d %d", &idx, &sd)
				msg := fmt.Sprintf("worker %d died at run index %d (seed %d): %v\n%s", w, idx, sd, err, lastLines(out, 40))
				mu.Lock()
				crashes = append(crashes, fmt.Sprintf("%d|%d|%s", idx, sd, msg))
				mu.Unlock()
				idx0 = idx + int64(workers) // continue after the crashing run
			}
		}()
	}
	wg.Wait()

	// 3. crashes: confirm by running the seed alone in a fresh process
	exit := 0
	replayDir := filepath.Join(verifDir, "replays")
	evidenceDir := filepath.Join(verifDir, "evidence")
	if d := os.Getenv("VERIF_OUT_DIR"); d != "" {
		// development aid (judging an edited copy): keep /verif/evidence and /verif/replays untouched
		replayDir, evidenceDir = filepath.Join(d, "replays"), filepath.Join(d, "evidence")
	}
	os.MkdirAll(replayDir, 0o755)
	var lines []string
	known := loadFindings()
	knownHit := map[string]int{}
	knownSeed := map[string]int64{}

	var unconfirmedDeaths []string
	confirmedSig := map[string]int{} // crash signature (from the dying worker's own output) -> confirmations so far
	triedSig := map[string]int{}
	for _, c := range crashes {
		parts := strings.SplitN(c, "|", 3)
		// many workers dying the same death need not all be run again: three confirmations, or six attempts, per signature
		own := crashSig([]byte(parts[2]))
		if confirmedSig[own] >= 3 || triedSig[own] >= 6 {
			continue
		}
		triedSig[own]++
		idx, _ := strconv.ParseInt(parts[0], 10, 64)
		sd, _ := strconv.ParseInt(parts[1], 10, 64)
		e := []string{"VERIF_PROP=" + prop, "VERIF_MODE=sweep", fmt.Sprintf("VERIF_BASE=%d", seed), fmt.Sprintf("VERIF_SEED0=%d", idx), "VERIF_TIER=" + tierName,
			"VERIF_STRIDE=1", "VERIF_N=1", "VERIF_DET_EVERY=0", "VERIF_OUT=" + filepath.Join(workDir, "crash.jsonl")}
		out, err := runWorker(bin, e, 5*time.Minute)
		if err == nil {
			// it does not happen again when the run is the only one of its process: state that the library carried
			// over from earlier runs of that worker, or trouble of ours. Decided at the end: beside a confirmed
			// violation it is a note, alone it is infrastructure trouble (exit 2).
			unconfirmedDeaths = append(unconfirmedDeaths, fmt.Sprintf("a worker died but its last run (index %d, seed %d) does not crash when run alone:\n%s", idx, sd, parts[2]))
			continue
		}
		sig := crashSig(out)
		confirmedSig[own]++
		if f := matchFinding(known, prop, prop+":crash:"+sig, string(out)); f != nil {
			knownHit[f.ID]++
			knownSeed[f.ID] = sd
			continue
		}
		path := filepath.Join(replayDir, fmt.Sprintf("%s-%d.json", prop, sd))
		rec := map[string]any{"property": prop, "seed": sd, "code": "process-crash", "signature": prop + ":crash:" + sig,
			"crash": true, "base": seed, "index": idx, "tier": tierName, "output_tail": lastLines(out, 60)}
		b, _ := json.MarshalIndent(rec, "", " ")
		os.WriteFile(path, b, 0o644)
		lines = append(lines, fmt.Sprintf("VIOLATION property=%s replay=%s", prop, path))
		fmt.Printf("  signature %s:crash:%s - the process dies (panic in a goroutine of the library) at seed %d\n%s\n", prop, sig, sd, indent(lastLines(out, 14)))
		exit = 1
	}

	// 4. violations: group by signature, known findings, minimise, replay
	bySig := map[string][]Record{}
	var sigs []string
	for _, r := range recs {
		if r.Sig == "" {
			continue
		}
		if _, ok := bySig[r.Sig]; !ok {
			sigs = append(sigs, r.Sig)
		}
		bySig[r.Sig] = append(bySig[r.Sig], r)
	}
	sort.Strings(sigs)
	reported := 0
	for _, sig := range sigs {
		rs := bySig[sig]
		sort.Slice(rs, func(i, j int) bool { return rs[i].Seed < rs[j].Seed })
		var fresh []Record
		for _, r := range rs {
			detail := ""
			for _, v := range r.Violations {
				if v.Sig == sig {
					detail = v.Detail
					break
				}
			}
			if f := matchFinding(known, prop, sig, detail); f != nil {
				knownHit[f.ID]++
				if _, ok := knownSeed[f.ID]; !ok {
					knownSeed[f.ID] = r.Seed
				}
				continue
			}
			if len(r.Scenario) > 0 {
				fresh = append(fresh, r)
			}
		}
		if len(fresh) == 0 {
			continue
		}
		if reported >= 8 {
			fmt.Printf("  (further signature not minimised: %s)\n", sig)
			exit = 1
			continue
		}
		reported++
		r := fresh[0]
		path := filepath.Join(replayDir, fmt.Sprintf("%s-%d.json", prop, r.Seed))
		useBin := bin
		if strings.Contains(sig, ":race:") && raceBin != "" {
			useBin = raceBin
		}
		final, confirmed := minimiseAndVerify(prop, useBin, r, path)
		if !confirmed {
			// a cold-start record that does not show again in a fresh process is not reported
			fmt.Printf("  (unconfirmed: %s at cold-start seed %d did not reproduce in a fresh process)\n", sig, r.Seed)
			os.Remove(path)
			reported--
			continue
		}
		lines = append(lines, fmt.Sprintf("VIOLATION property=%s replay=%s", prop, path))
		fmt.Printf("  signature %s (%d failing runs recorded, first seed %d)%s\n", sig, len(rs), r.Seed, final)
		for _, v := range r.Violations {
			if v.Sig == sig {
				fmt.Printf("    %s\n", strings.ReplaceAll(trunc(v.Detail, 1500), "\n", "\n    "))
				break
			}
		}
		exit = 1
	}

	if len(infra) > 0 {
		die2("%d simulated run(s) could not be started by the harness; first: %s", len(infra), trunc(infra[0], 800))
	}
	if len(unconfirmedDeaths) > 0 {
		if exit == 0 {
			die2("%s", unconfirmedDeaths[0])
		}
		fmt.Printf("NOTE: %d worker(s) died at a run that does not crash when it is the only run of its process (the library carries state from run to run); first:\n%s\n", len(unconfirmedDeaths), indent(trunc(unconfirmedDeaths[0], 1500)))
	}
	if len(nondet) > 0 && exit == 0 {
		// nothing can be concluded from a clean sweep that does not replay
		if len(nondet) > 5 {
			nondet = nondet[:5]
		}
		die2("determinism self-test failed: the same seed produced different traces and no violation was confirmed\n%s", strings.Join(nondet, "\n"))
	}
	if len(nondet) > 0 {
		fmt.Printf("NOTE: %d run(s) did not replay identically (the library under test behaves nondeterministically beyond the simulated kernel)\n", len(nondet))
	}

	// 5. evidence
	ev := evidence(prop, tierName, seed, sums, recs, crashes, knownHit, time.Since(start), workers, race)
	os.MkdirAll(evidenceDir, 0o755)
	eb, _ := json.MarshalIndent(ev, "", " ")
	if err := os.WriteFile(filepath.Join(evidenceDir, prop+".json"), eb, 0o644); err != nil {
		die2("cannot write evidence: %v", err)
	}

	var ids []string
	for id := range knownHit {
		ids = append(ids, id)
	}
	sort.Strings(ids)
	for _, id := range ids {
		for _, f := range known {
			if f.ID == id {
				fmt.Printf("KNOWN-FINDING: property=%s %s [%s; %d runs, e.g. seed %d]\n", prop, f.What, f.ID, knownHit[id], knownSeed[id])
			}
		}
	}
	for _, l := range lines {
		fmt.Println(l)
	}
	total := 0
	for _, s := range sums {
		total += s.Runs
	}
	fmt.Printf("check %s %s: %d simulated runs, %d workers, %.1fs, exit %d\n", prop, tierName, total, workers, time.Since(start).Seconds(), exit)
	cleanup()
	os.Exit(exit)
}

func indent(s string) string { return "    " + strings.ReplaceAll(s, "\n", "\n    ") }

func trunc(s string, n int) string {
	if len(s) > n {
		return s[:n] + " ..."
	}
	return s
}

func lastLines(b []byte, n int) string {
	ls := strings.Split(strings.TrimRight(string(b), "\n"), "\n")
	if len(ls) > n {
		ls = ls[len(ls)-n:]
	}
	return strings.Join(ls, "\n")
}

var panicRe = regexp.MustCompile(`(?m)^panic: (.*)$`)
var frameRe = regexp.MustCompile(`(?m)^\s+(/repo/[^\s]+:\d+)`)

func crashSig(out []byte) string {
	sig := "unknown"
	if m := panicRe.FindSubmatch(out); m != nil {
		sig = string(m[1])
		if len(sig) > 80 {
			sig = sig[:80]
		}
	} else if bytes.Contains(out, []byte("fatal error:")) {
		i := bytes.Index(out, []byte("fatal error:"))
		sig = strings.SplitN(string(out[i:]), "\n", 2)[0]
	}
	if m := frameRe.FindSubmatch(out); m != nil {
		sig += " @ " + string(m[1])
	}
	return sig
}

func runWorker(bin string, e []string, limit time.Duration) ([]byte, error) {
	cmd := exec.Command(bin, "-test.run", "^TestWorker$", "-test.count=1", "-test.timeout=0")
	cmd.Dir = verifDir
	cmd.Env = append(append([]string{}, env...), e...)
	cmd.SysProcAttr = &syscall.SysProcAttr{Setpgid: true}
	var buf bytes.Buffer
	cmd.Stdout = nil // what the library prints in debug mode; panics and race reports go to stderr
	cmd.Stderr = &buf
	if err := cmd.Start(); err != nil {
		return nil, err
	}
	done := make(chan error, 1)
	go func() { done <- cmd.Wait() }()
	select {
	case err := <-done:
		return buf.Bytes(), err
	case <-time.After(limit):
		syscall.Kill(-cmd.Process.Pid, syscall.SIGKILL)
		<-done
		die2("watchdog: a worker did not finish within %v", limit)
		return nil, nil
	}
}

func parseOut(path string) (sums []Summary, recs []Record, nondet []string) {
	f, err := os.Open(path)
	if err != nil {
		return
	}
	defer f.Close()
	sc := bufio.NewScanner(f)
	sc.Buffer(make([]byte, 1<<20), 1<<28)
	for sc.Scan() {
		line := sc.Bytes()
		var k struct {
			Kind string `json:"kind"`
		}
		json.Unmarshal(line, &k)
		switch k.Kind {
		case "infrastructure":
			var x struct {
				Seed int64  `json:"seed"`
				Msg  string `json:"msg"`
			}
			json.Unmarshal(line, &x)
			infraMu.Lock()
			infra = append(infra, fmt.Sprintf("seed %d: %s", x.Seed, x.Msg))
			infraMu.Unlock()
		case "summary":
			var s Summary
			if json.Unmarshal(line, &s) == nil {
				sums = append(sums, s)
			}
		case "nondeterminism":
			nondet = append(nondet, string(line))
		case "violation-brief":
			var r Record
			if json.Unmarshal(line, &r) == nil {
				recs = append(recs, r)
			}
		default:
			var r Record
			if json.Unmarshal(line, &r) == nil && r.Sig != "" {
				recs = append(recs, r)
			}
		}
	}
	return
}

func loadFindings() []Finding {
	b, err := os.ReadFile(filepath.Join(verifDir, "known_findings.json"))
	if err != nil {
		return nil
	}
	var doc struct {
		Findings []Finding `json:"findings"`
	}
	if err := json.Unmarshal(b, &doc); err != nil {
		die2("known_findings.json: %v", err)
	}
	return doc.Findings
}

func matchFinding(fs []Finding, prop, sig, detail string) *Finding {
	for i := range fs {
		f := &fs[i]
		if f.Status != "known" || f.Property != prop {
			continue
		}
		if ok, _ := regexp.MatchString(f.Sig, sig); !ok {
			continue
		}
		if f.Detail != "" {
			if ok, _ := regexp.MatchString(f.Detail, detail); !ok {
				continue
			}
		}
		return f
	}
	return nil
}

func minimiseAndVerify(prop, bin string, r Record, path string) (string, bool) {
	isCold := r.Seed%1000000000 >= coldIndex0
	in := filepath.Join(workDir, fmt.Sprintf("fail-%d.json", r.Seed))
	b, _ := json.Marshal(r)
	os.WriteFile(in, b, 0o644)
	budget := "2500"
	if strings.Contains(r.Sig, ":race:") || isCold {
		budget = "0" // the detector reports a race once per process, a process is cold once: no in-process minimisation
	}
	note := ""
	if budget != "0" {
		e := []string{"VERIF_PROP=" + prop, "VERIF_MODE=minimise", "VERIF_FILE=" + in, "VERIF_MIN_OUT=" + path,
			"VERIF_OUT=" + filepath.Join(workDir, "min.jsonl"), "VERIF_MIN_BUDGET=" + budget}
		if _, err := runWorker(bin, e, 10*time.Minute); err != nil {
			note = " [minimiser crashed; original scenario kept]"
		}
	}
	if _, err := os.Stat(path); err != nil {
		ib, _ := json.MarshalIndent(r, "", " ")
		os.WriteFile(path, ib, 0o644)
	}
	// replay in a fresh process: must reproduce
	e := []string{"VERIF_PROP=" + prop, "VERIF_MODE=replay", "VERIF_FILE=" + path, "VERIF_OUT=" + filepath.Join(workDir, "replay.jsonl"),
		"GORACE=log_path=" + filepath.Join(workDir, "race.replay") + " halt_on_error=0 exitcode=0"}
	os.Remove(filepath.Join(workDir, "replay.jsonl"))
	runWorker(bin, e, 5*time.Minute)
	rb, _ := os.ReadFile(filepath.Join(workDir, "replay.jsonl"))
	var rep struct {
		Same     bool `json:"same_signature"`
		SameHash bool `json:"same_hash"`
	}
	for _, ln := range bytes.Split(rb, []byte("\n")) {
		if bytes.Contains(ln, []byte(`"kind":"replay"`)) {
			json.Unmarshal(ln, &rep)
		}
	}
	if !rep.Same {
		if isCold && !strings.Contains(r.Sig, ":race:") {
			return "", false
		}
		// fall back to the un-minimised record
		ib, _ := json.MarshalIndent(r, "", " ")
		os.WriteFile(path, ib, 0o644)
		return note + " [minimised file did not reproduce in a fresh process; original scenario written]", true
	}
	if isCold {
		if !rep.SameHash {
			return note + " [cold-start run, not minimised; replay in a fresh process reproduces the violation; trace hash differs]", true
		}
		return note + " [cold-start run, not minimised; replay in a fresh process reproduces it exactly]", true
	}
	if !rep.SameHash {
		return note + " [replay reproduces the violation; trace hash differs]", true
	}
	return note + " [minimised; replay reproduces it exactly]", true
}

func doReplay(prop, bin, raceBin, file string) int {
	b, err := os.ReadFile(file)
	if err != nil {
		die2("%v", err)
	}
	var head struct {
		Crash bool   `json:"crash"`
		Base  int64  `json:"base"`
		Index int64  `json:"index"`
		Sig   string `json:"signature"`
		Tier  string `json:"tier"`
	}
	json.Unmarshal(b, &head)
	if head.Crash {
		e := []string{"VERIF_PROP=" + prop, "VERIF_MODE=sweep", fmt.Sprintf("VERIF_BASE=%d", head.Base), fmt.Sprintf("VERIF_SEED0=%d", head.Index), "VERIF_TIER=" + head.Tier,
			"VERIF_STRIDE=1", "VERIF_N=1", "VERIF_DET_EVERY=0", "VERIF_OUT=" + filepath.Join(workDir, "crash.jsonl")}
		out, err := runWorker(bin, e, 5*time.Minute)
		if err != nil {
			fmt.Printf("%s\nVIOLATION property=%s replay=%s\n", lastLines(out, 30), prop, file)
			return 1
		}
		fmt.Println("replay: the process did not crash")
		return 0
	}
	use := bin
	if strings.Contains(head.Sig, ":race:") && raceBin != "" {
		use = raceBin
	}
	outF := filepath.Join(workDir, "replay.jsonl")
	e := []string{"VERIF_PROP=" + prop, "VERIF_MODE=replay", "VERIF_FILE=" + file, "VERIF_OUT=" + outF,
		"GORACE=log_path=" + filepath.Join(workDir, "race.replay") + " halt_on_error=0 exitcode=0"}
	out, err := runWorker(use, e, 5*time.Minute)
	if err != nil {
		fmt.Printf("%s\n", lastLines(out, 30))
	}
	rb, _ := os.ReadFile(outF)
	var rep struct {
		Violations []Violation `json:"violations"`
		Same       bool        `json:"same_signature"`
		SameHash   bool        `json:"same_hash"`
		Trace      []string    `json:"trace"`
	}
	for _, ln := range bytes.Split(rb, []byte("\n")) {
		if bytes.Contains(ln, []byte(`"kind":"replay"`)) {
			json.Unmarshal(ln, &rep)
		}
	}
	for _, t := range rep.Trace {
		fmt.Println("  ", t)
	}
	for _, v := range rep.Violations {
		fmt.Printf("violation %s: %s\n", v.Sig, v.Detail)
	}
	fmt.Printf("replay: same signature=%v same trace hash=%v\n", rep.Same, rep.SameHash)
	if len(rep.Violations) > 0 {
		fmt.Printf("VIOLATION property=%s replay=%s\n", prop, file)
		return 1
	}
	return 0
}

func evidence(prop, tierName string, seed int64, sums []Summary, recs []Record, crashes []string, knownHit map[string]int, wall time.Duration, workers int, race bool) map[string]any {
	runs, failing, calls, nontrivial, det, detBad, raceRuns := 0, 0, 0, 0, 0, 0, 0
	coldN := 0
	for _, s := range sums {
		if s.Cold {
			coldN += s.Runs
		}
	}
	var simNs, steps int64
	counters := map[string]int{}
	shapes := map[uint64]bool{}
	inter := map[uint64]bool{}
	var samples []any
	seqs := map[string]bool{}
	seqSpace := 0
	for _, s := range sums {
		if s.SeqSpace > seqSpace {
			seqSpace = s.SeqSpace
		}
		for _, q := range s.Seqs {
			seqs[q] = true
		}
		runs += s.Runs
		failing += s.Failing
		calls += s.Calls
		nontrivial += s.Nontrivial
		det += s.DetChecked
		detBad += s.DetBad
		simNs += s.SimTimeNs
		steps += s.Steps
		if s.RaceBuild {
			raceRuns += s.Runs
		}
		for k, v := range s.Counters {
			counters[k] += v
		}
		for _, h := range s.Shapes {
			shapes[h] = true
		}
		for _, h := range s.Interleave {
			inter[h] = true
		}
		if len(samples) < 3 {
			for _, x := range s.Samples {
				if len(samples) < 3 {
					samples = append(samples, x)
				}
			}
		}
	}
	if len(samples) == 0 {
		samples = append(samples, "no sample recorded")
	}
	sigCount := map[string]int{}
	for _, r := range recs {
		sigCount[r.Sig]++
	}
	unknown := 0
	known := loadFindings()
	for _, r := range recs {
		detail := ""
		for _, v := range r.Violations {
			if v.Sig == r.Sig {
				detail = v.Detail
			}
		}
		if r.Kind == "violation-brief" {
			continue
		}
		if matchFinding(known, prop, r.Sig, detail) == nil {
			unknown++
		}
	}
	cov := map[string]any{
		"evaluations":         runs,
		"distinct_nontrivial": len(shapes),
		"rule": "one evaluation = one simulated run (scenario drawn from the run seed, schedule drawn from the same seed) of the real library on the simulated kernel; three runs in four use this property's own scenario profile, every fourth the profile of another property (counts under fault_and_event_counts, keys profile:*); " +
			"a run is non-trivial if at least one request reached the simulated wire or one datagram reached a library socket; two runs are distinct if the sequence of " +
			"(event kind, error class, task, harness point, 64-byte-or-not) over the whole trace differs (times and payloads are ignored)",
		"samples":                       samples,
		"nontrivial_runs":               nontrivial,
		"api_calls":                     calls,
		"runs_per_hour":                 int(float64(runs) / wall.Hours()),
		"simulated_time_s":              float64(simNs) / 1e9,
		"scheduler_steps":               steps,
		"fault_and_event_counts":        counters,
		"violation_signatures":          sigCount,
		"known_findings_hit":            knownHit,
		"process_crashes":               len(crashes),
		"determinism_selftest_runs":     det,
		"determinism_selftest_mismatch": detBad,
		"workers":                       workers,
		"seed_scheme":                   fmt.Sprintf("run seed = VERIF_SEED(%d)*1e9 + run index; run indices 0..%d; cold-start runs (one fresh process each): indices %d..%d", seed, runs-coldN-1, coldIndex0, coldIndex0+coldN-1),
		"cold_start_runs":               coldN,
		"real_code":                     "uhppote (all operations, sendto/broadcast/listen filters, ut0311 driver incl. loops, deadlines, defers, goroutines, guard), encoding/UTO311-L0x, encoding/bcd, messages, types, setSocketOptions (against a throw-away kernel socket)",
		"stubs":                         "OS network stack (verif/sim/vnet), controllers and event senders (scenario emission plans), wall clock (testing/synctest), goroutine choice (seeded scheduler)",
	}
	if prop == "C03" {
		// class sequences of length <= 2 per delivery path: 3 paths x (1 + n + n*n), n = classes the generator draws from
		cov["class_sequences_len2_reached"] = len(seqs)
		cov["class_sequences_len2_space"] = seqSpace
	}
	var zero []string
	// probes: rare conditions each profile is expected to reach; one at zero is a gap in the workload or fault mix
	probesOf := map[string][]string{
		"C01": {"kernel:read-timeout", "kernel:udp-lost:no-socket"},
		"C02": {"kernel:read-timeout"},
		"C03": {"kernel:tie:data-at-deadline", "kernel:read-truncated", "kernel:read-timeout", "kernel:udp-lost:no-socket"},
		"C04": {"kernel:read-truncated", "kernel:read-timeout"},
		"C06": {"kernel:udp-lost:no-socket"},
		"C07": {},
		"C08": {"probe:lock-had-to-wait", "kernel:read-truncated", "kernel:read-timeout", "kernel:udp-lost:no-socket"},
		"C09": {"kernel:tie:data-at-deadline", "probe:lock-had-to-wait", "kernel:read-timeout", "kernel:udp-lost:no-socket"},
		"C10": {"kernel:read-truncated", "kernel:udp-lost:no-socket", "read-fail:closed"},
		"C11": {"kernel:tie:data-at-deadline", "kernel:read-truncated", "probe:lock-had-to-wait", "kernel:udp-lost:no-socket"},
		"C13": {},
		"C17": {},
	}
	for _, probe := range probesOf[prop] {
		if counters[probe] == 0 {
			zero = append(zero, probe)
		}
	}
	cov["probes_at_zero"] = zero
	if race {
		cov["race_detector_runs"] = raceRuns
	}
	if len(inter) > 0 {
		cov["distinct_schedules"] = len(inter) // distinct scheduler choice tapes
	}
	return map[string]any{
		"property_id": prop,
		"tier":        tierName,
		"seed":        seed,
		"level":       "exploration",
		"coverage":    cov,
		"assumptions": []string{
			"the library is compiled with go1.26.8 (testing/synctest) instead of the toolchain its go.mod names",
			"interleavings are explored at kernel-hook and channel granularity; code between two hooks runs atomically with respect to the simulated world",
			"the simulated kernel (bind rules, deadline semantics, datagram truncation, connected-UDP filtering, ICMP, TCP message boundaries) is a model written for this check",
			"sampling, not proof: a clean batch is evidence for the seeds explored",
		},
		"wall_s":     wall.Seconds(),
		"violations": unknown,
	}
}
