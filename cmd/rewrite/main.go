// rewrite generates a `go build -overlay` file that replaces the non-test sources of
// package github.com/uhppoted/uhppote-core/uhppote with copies in which every selector that
// creates a socket, sleeps or declares a mutex is redirected to verif/sim/vnet.
//
// Only selector expressions are touched (byte-offset patching, so line numbers are preserved);
// one import is added on the package clause line and blank uses are appended at the end of the
// file so that a now-unused import still compiles.
//
// usage: rewrite -repo /repo -out <dir>    (writes <dir>/overlay.json and <dir>/src/*.go)
// exit 2 on any construct that cannot be simulated.
package main

import (
	"encoding/json"
	"flag"
	"fmt"
	"go/ast"
	"go/parser"
	"go/token"
	"os"
	"path/filepath"
	"reflect"
	"sort"
	"strconv"
	"strings"
)

// selectors redirected to vnet, per imported package path
var redirect = map[string]map[string]string{
	"net": {
		"ListenUDP":    "ListenUDP",
		"DialUDP":      "DialUDP",
		"Dial":         "Dial",
		"DialTimeout":  "DialTimeout",
		"DialTCP":      "DialTCP",
		"ListenPacket": "ListenPacket",
		"UDPConn":      "UDPConn",
		"TCPConn":      "TCPConn",
		"Dialer":       "Dialer",
		"ListenConfig": "ListenConfig",
	},
	"time": {
		"Sleep": "Sleep",
	},
	"os/signal": {
		// the harness plays the operating system that delivers the application's stop signal: it has to know when the
		// library tells the OS to stop delivering to a channel
		"Notify": "SignalNotify",
		"Stop":   "SignalStop",
		"Reset":  "SignalReset",
		"Ignore": "SignalIgnore",
	},
	"sync": {
		"Mutex":   "Mutex",
		"RWMutex": "RWMutex",
	},
}

// identifiers of package net that create or wrap real sockets and have no simulated counterpart
var refuse = map[string]map[string]bool{
	"net": {
		"Listen": true, "ListenTCP": true, "ListenIP": true, "ListenUnix": true, "ListenUnixgram": true,
		"ListenMulticastUDP": true, "DialIP": true, "DialUnix": true,
		"FileConn": true, "FileListener": true, "FilePacketConn": true, "Pipe": true,
		"IPConn": true, "UnixConn": true, "TCPListener": true, "UnixListener": true,
		"LookupHost": true, "LookupIP": true, "LookupAddr": true, "ResolveUDPAddr": false, "Resolver": true,
	},
}

// method names that look like operations on sync.Map, sync.Pool, sync.Once, sync.WaitGroup or sync/atomic values
var syncOps = map[string]bool{
	"Load": true, "Store": true, "LoadOrStore": true, "LoadAndDelete": true, "CompareAndSwap": true, "Swap": true,
	"CompareAndDelete": true, "Range": true, "Delete": true, "Add": true, "Or": true, "And": true,
	"Get": true, "Put": true, "Do": true,
	"AddInt32": true, "AddInt64": true, "AddUint32": true, "AddUint64": true, "LoadInt32": true, "LoadInt64": true,
	"LoadUint32": true, "LoadUint64": true, "LoadPointer": true, "StoreInt32": true, "StoreInt64": true, "StoreUint32": true,
	"StoreUint64": true, "StorePointer": true, "CompareAndSwapInt32": true, "CompareAndSwapInt64": true,
	"CompareAndSwapUint32": true, "CompareAndSwapUint64": true, "CompareAndSwapPointer": true,
}

type edit struct {
	off  int
	n    int
	with string
}

func main() {
	repo := flag.String("repo", "/repo", "repository root (the path the module replace directive points to)")
	srcTree := flag.String("src", "", "read the sources from this tree instead (an edited copy of the repository); every file is mapped onto -repo")
	out := flag.String("out", "", "output directory")
	flag.Parse()
	if *out == "" {
		fmt.Fprintln(os.Stderr, "rewrite: -out required")
		os.Exit(2)
	}
	if *srcTree == "" {
		*srcTree = *repo
	}

	// every non-test source file of the library, whatever its package
	var files []string
	filepath.Walk(*srcTree, func(p string, info os.FileInfo, err error) error {
		if err != nil {
			return nil
		}
		if info.IsDir() {
			if b := info.Name(); b == ".git" || b == "_out" || b == "testdata" || (strings.HasPrefix(b, ".") && p != *srcTree) {
				return filepath.SkipDir
			}
			return nil
		}
		if strings.HasSuffix(p, ".go") && !strings.HasSuffix(p, "_test.go") {
			files = append(files, p)
		}
		return nil
	})
	if len(files) == 0 {
		fmt.Fprintf(os.Stderr, "rewrite: no sources in %s\n", *srcTree)
		os.Exit(2)
	}
	sort.Strings(files)

	srcdir := filepath.Join(*out, "src")
	if err := os.MkdirAll(srcdir, 0o755); err != nil {
		fmt.Fprintln(os.Stderr, "rewrite:", err)
		os.Exit(2)
	}

	overlay := map[string]string{}
	stats := map[string]int{}
	have := map[string]bool{}

	for _, f := range files {
		rel, _ := filepath.Rel(*srcTree, f)
		have[rel] = true
		src, err := os.ReadFile(f)
		if err != nil {
			fmt.Fprintln(os.Stderr, "rewrite:", err)
			os.Exit(2)
		}
		res, n, err := rewriteFile(f, src, stats)
		if err != nil {
			fmt.Fprintln(os.Stderr, "rewrite:", err)
			os.Exit(2)
		}
		target := filepath.Join(*repo, rel)
		if n == 0 {
			if *srcTree != *repo {
				overlay[target] = f
			}
			continue
		}
		dst := filepath.Join(srcdir, strings.ReplaceAll(rel, string(filepath.Separator), "__"))
		if err := os.WriteFile(dst, res, 0o644); err != nil {
			fmt.Fprintln(os.Stderr, "rewrite:", err)
			os.Exit(2)
		}
		overlay[target] = dst
	}

	if *srcTree != *repo {
		// an edited copy: files the copy no longer has are hidden
		filepath.Walk(*repo, func(p string, info os.FileInfo, err error) error {
			if err != nil {
				return nil
			}
			if info.IsDir() {
				if info.Name() == ".git" {
					return filepath.SkipDir
				}
				return nil
			}
			rel, _ := filepath.Rel(*repo, p)
			if strings.HasSuffix(p, ".go") && !strings.HasSuffix(p, "_test.go") && !have[rel] {
				overlay[p] = ""
			}
			return nil
		})
	}

	if len(overlay) == 0 {
		fmt.Fprintln(os.Stderr, "rewrite: no seam found in the library - nothing to simulate")
		os.Exit(2)
	}

	blob, _ := json.MarshalIndent(map[string]any{"Replace": overlay}, "", " ")
	if err := os.WriteFile(filepath.Join(*out, "overlay.json"), blob, 0o644); err != nil {
		fmt.Fprintln(os.Stderr, "rewrite:", err)
		os.Exit(2)
	}
	sblob, _ := json.Marshal(stats)
	os.WriteFile(filepath.Join(*out, "rewrite-stats.json"), sblob, 0o644)
}

func rewriteFile(name string, src []byte, stats map[string]int) ([]byte, int, error) {
	fset := token.NewFileSet()
	file, err := parser.ParseFile(fset, name, src, parser.ParseComments)
	if err != nil {
		return nil, 0, err
	}

	// local name -> import path
	local := map[string]string{}
	for _, imp := range file.Imports {
		path, _ := strconv.Unquote(imp.Path.Value)
		nm := filepath.Base(path)
		if imp.Name != nil {
			nm = imp.Name.Name
		}
		local[nm] = path
		if path == "verif/sim/vnet" {
			return nil, 0, fmt.Errorf("%s already imports verif/sim/vnet", name)
		}
	}

	var edits []edit
	var ferr error
	used := map[string]bool{}

	ast.Inspect(file, func(n ast.Node) bool {
		sel, ok := n.(*ast.SelectorExpr)
		if !ok {
			return true
		}
		id, ok := sel.X.(*ast.Ident)
		if !ok || id.Obj != nil { // id.Obj != nil: a local variable shadows the package name
			return true
		}
		path, ok := local[id.Name]
		if !ok {
			return true
		}
		if m, ok := redirect[path]; ok {
			if to, ok := m[sel.Sel.Name]; ok {
				p := fset.Position(id.Pos())
				e := fset.Position(sel.Sel.End())
				edits = append(edits, edit{off: p.Offset, n: e.Offset - p.Offset, with: "vnet." + to})
				stats[path+"."+sel.Sel.Name]++
				used[path] = true
				return true
			}
		}
		if m, ok := refuse[path]; ok && m[sel.Sel.Name] {
			p := fset.Position(sel.Pos())
			ferr = fmt.Errorf("cannot simulate %s.%s at %s:%d", path, sel.Sel.Name, p.Filename, p.Line)
		}
		return true
	})
	if ferr != nil {
		return nil, 0, ferr
	}

	// Yield points: in every function that communicates over channels or starts goroutines, each block
	// begins with a scheduling point, so that the scheduler - not the Go runtime - decides how the
	// library's own goroutines interleave around their channel hand-offs.
	yields := 0
	addYields := func(body *ast.BlockStmt) {
		if body == nil {
			return
		}
		var skip = map[*ast.BlockStmt]bool{}
		ast.Inspect(body, func(n ast.Node) bool {
			switch x := n.(type) {
			case *ast.SwitchStmt:
				skip[x.Body] = true
			case *ast.TypeSwitchStmt:
				skip[x.Body] = true
			case *ast.SelectStmt:
				skip[x.Body] = true
			}
			return true
		})
		ast.Inspect(body, func(n ast.Node) bool {
			switch x := n.(type) {
			case *ast.BlockStmt:
				if !skip[x] && x.Lbrace.IsValid() {
					off := fset.Position(x.Lbrace).Offset + 1
					edits = append(edits, edit{off: off, n: 0, with: " vnet.Yield();"})
					yields++
				}
			case *ast.CaseClause:
				off := fset.Position(x.Colon).Offset + 1
				edits = append(edits, edit{off: off, n: 0, with: " vnet.Yield();"})
				yields++
			case *ast.CommClause:
				off := fset.Position(x.Colon).Offset + 1
				edits = append(edits, edit{off: off, n: 0, with: " vnet.Yield();"})
				yields++
			}
			return true
		})
	}
	concurrent := func(body *ast.BlockStmt) bool {
		found := false
		if body == nil {
			return false
		}
		ast.Inspect(body, func(n ast.Node) bool {
			switch x := n.(type) {
			case *ast.SendStmt, *ast.GoStmt, *ast.SelectStmt:
				found = true
			case *ast.UnaryExpr:
				if x.Op == token.ARROW {
					found = true
				}
			case *ast.CallExpr:
				if id, ok := x.Fun.(*ast.Ident); ok && id.Name == "close" && id.Obj == nil {
					found = true
				}
			}
			return !found
		})
		return found
	}
	chanFuncs := map[*ast.BlockStmt]bool{}
	for _, d := range file.Decls {
		if fd, ok := d.(*ast.FuncDecl); ok && concurrent(fd.Body) {
			addYields(fd.Body)
			chanFuncs[fd.Body] = true
		}
	}
	stats["yield-points"] += yields

	// Scheduling points around shared-memory synchronisation: a statement that calls a method named like an
	// operation of sync.Map / sync.Pool / sync.Once / sync/atomic (no type information is used: a namesake only
	// costs a scheduling point) gets a yield before and after it, in every package of the library, so that
	// lazily initialised or cached state is explored under interleavings and not only at kernel hooks.
	// Not inside a function literal handed to Do (sync.Once holds a real lock while it runs).
	syncYields := 0
	var walkStmts func(list []ast.Stmt, inOnce bool)
	hasSyncCall := func(st ast.Node) bool {
		if st == nil || reflect.ValueOf(st).IsNil() {
			return false
		}
		found := false
		ast.Inspect(st, func(n ast.Node) bool {
			switch x := n.(type) {
			case *ast.FuncLit, *ast.BlockStmt:
				return false // nested statements are visited on their own
			case *ast.CallExpr:
				if sel, ok := x.Fun.(*ast.SelectorExpr); ok && syncOps[sel.Sel.Name] {
					_, chained := sel.X.(*ast.CallExpr)
					tag := false
					if inner, ok := sel.X.(*ast.SelectorExpr); ok && inner.Sel.Name == "Tag" { // reflect.StructTag.Get
						tag = true
					}
					if !(chained && sel.Sel.Name == "Add") && !tag { // time.Now().Add(..)
						found = true
					}
				}
			}
			return !found
		})
		return found
	}
	var walkNode func(n ast.Node, inOnce bool)
	walkNode = func(n ast.Node, inOnce bool) {
		ast.Inspect(n, func(m ast.Node) bool {
			switch x := m.(type) {
			case *ast.CallExpr:
				if sel, ok := x.Fun.(*ast.SelectorExpr); ok && sel.Sel.Name == "Do" {
					for _, a := range x.Args {
						walkNode(a, true)
					}
					walkNode(x.Fun, inOnce)
					return false
				}
			case *ast.BlockStmt:
				walkStmts(x.List, inOnce)
				return false
			case *ast.CaseClause:
				walkStmts(x.Body, inOnce)
				return false
			case *ast.CommClause:
				walkStmts(x.Body, inOnce)
				return false
			}
			return true
		})
	}
	walkStmts = func(list []ast.Stmt, inOnce bool) {
		for _, st := range list {
			switch st.(type) {
			case *ast.ExprStmt, *ast.AssignStmt, *ast.DeclStmt, *ast.IncDecStmt, *ast.SendStmt:
				if !inOnce && hasSyncCall(st) {
					edits = append(edits, edit{off: fset.Position(st.Pos()).Offset, n: 0, with: "vnet.Yield(); "})
					edits = append(edits, edit{off: fset.Position(st.End()).Offset, n: 0, with: "; vnet.Yield()"})
					syncYields += 2
				}
			case *ast.IfStmt:
				// `if v, ok := m.Load(k); ok {` : a yield before the statement; the blocks begin with their own
				if x := st.(*ast.IfStmt); !inOnce && (hasSyncCall(x.Init) || hasSyncCall(x.Cond)) {
					edits = append(edits, edit{off: fset.Position(st.Pos()).Offset, n: 0, with: "vnet.Yield(); "})
					edits = append(edits, edit{off: fset.Position(x.Body.Lbrace).Offset + 1, n: 0, with: " vnet.Yield();"})
					edits = append(edits, edit{off: fset.Position(st.End()).Offset, n: 0, with: "; vnet.Yield()"})
					syncYields += 3
				}
			case *ast.ReturnStmt:
				if !inOnce && hasSyncCall(st) {
					edits = append(edits, edit{off: fset.Position(st.Pos()).Offset, n: 0, with: "vnet.Yield(); "})
					syncYields++
				}
			}
			walkNode(st, inOnce)
		}
	}
	for _, d := range file.Decls {
		if fd, ok := d.(*ast.FuncDecl); ok && fd.Body != nil {
			walkStmts(fd.Body.List, false)
		}
	}
	stats["sync-yield-points"] += syncYields

	if len(edits) == 0 {
		return src, 0, nil
	}

	// import on the package clause line: `package uhppote; import vnet "verif/sim/vnet"`
	pe := fset.Position(file.Name.End())
	edits = append(edits, edit{off: pe.Offset, n: 0, with: `; import vnet "verif/sim/vnet"`})

	sort.SliceStable(edits, func(i, j int) bool { return edits[i].off < edits[j].off })

	var b strings.Builder
	at := 0
	for _, e := range edits {
		b.Write(src[at:e.off])
		b.WriteString(e.with)
		at = e.off + e.n
	}
	b.Write(src[at:])

	// keep possibly-unused imports alive (appended after the last line: no line shifts)
	b.WriteString("\n")
	for nm, path := range local {
		switch path {
		case "net":
			if used[path] {
				fmt.Fprintf(&b, "var _ %s.IP\n", nm)
			}
		case "time":
			if used[path] {
				fmt.Fprintf(&b, "var _ %s.Duration\n", nm)
			}
		case "sync":
			if used[path] {
				fmt.Fprintf(&b, "var _ %s.Locker\n", nm)
			}
		case "os/signal":
			if used[path] {
				fmt.Fprintf(&b, "var _ = %s.Notify\n", nm)
			}
		}
	}

	return []byte(b.String()), len(edits) - 1, nil
}
