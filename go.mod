module verif

go 1.26.8

require github.com/uhppoted/uhppote-core v0.0.0

replace github.com/uhppoted/uhppote-core => /repo
