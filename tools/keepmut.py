#!/usr/bin/env python3
"""tools/keepmut.py <property> <mN> <outdir-of-agent> [checks...]
Confirms a seeded change (suite passes with it, demo discriminates), runs the listed quick checks against it
and stores it as /verif/seeded/<property>-<mN>/ (patch.diff, demo, meta.json)."""
import sys, os, re, json, subprocess, shutil, glob
prop, m, out = sys.argv[1:4]
checks = sys.argv[4:] or [prop]
name = f"{prop}-{m}"
patch = os.path.join(out, f"{m}.diff")
demos = sorted(glob.glob(os.path.join(out, f"{m}_demo*_test.go")) + glob.glob(os.path.join(out, f"{m}*_test.go")))
demo = demos[0]
root = os.path.dirname(os.path.dirname(os.path.abspath(__file__)))
def sh(cmd):
    r = subprocess.run(cmd, shell=True, capture_output=True, text=True, cwd=root)
    return r.returncode, r.stdout + r.stderr
rc, ev = sh(f"tools/evalmut.sh {name} {patch} {' '.join(checks)}")
ok_suite = "compiles, existing suite passes" in ev
det = {}
for line in ev.splitlines():
    mm = re.match(rf"{re.escape(name)}: (C\d+) exit=(\d+) ?(.*)", line)
    if mm:
        det[mm.group(1)] = {"exit": int(mm.group(2)), "signatures": sorted(set(s.strip() for s in re.split(r"\s+(?=C\d+:)", mm.group(3).strip()) if s.strip()))[:12]}
rc, cf = sh(f"tools/confirm_demo.sh {name} {patch} {demo}")
confirmed = "CONFIRMED" in cf and "NOT-CONFIRMED" not in cf
# README section of this mutant
readme = open(os.path.join(out, "README.md")).read() if os.path.exists(os.path.join(out, "README.md")) else ""
sec = ""
parts = re.split(r"\n(?=#+ .*\b[mM]%s\b)" % m[1:], readme)
for p in parts[1:]:
    sec = re.split(r"\n-{20,}|\n(?=#+ .*\b[mM]\d\b)", p)[0].strip()
    break
dst = os.path.join(root, "seeded", name)
os.makedirs(dst, exist_ok=True)
shutil.copy(patch, os.path.join(dst, "patch.diff"))
shutil.copy(demo, os.path.join(dst, os.path.basename(demo)))
meta = {
  "id": name, "property": prop, "source": "independent sub-agent given only the property record and a scratch worktree",
  "description_by_author": sec[:4000],
  "needs_to_manifest": (re.search(r"\*\*What is needed to manifest\.?\*\*(.*?)(?:\n\n|\Z)", sec, re.S) or re.search(r"[Nn]eeds?(.*?)(?:\n\n|\Z)", sec, re.S) or [None, ""])[1].strip()[:1500] if sec else "",
  "confirmed": {
     "compiles_and_existing_suite_passes_with_change": ok_suite,
     "demo_passes_on_clean_tree_and_fails_with_change": confirmed,
     "commands": [f"tools/evalmut.sh {name} seeded/{name}/patch.diff {' '.join(checks)}", f"tools/confirm_demo.sh {name} seeded/{name}/patch.diff seeded/{name}/{os.path.basename(demo)}"],
     "confirm_output": cf.strip().splitlines()[-1] if cf.strip() else "",
  },
  "detection": det,
}
json.dump(meta, open(os.path.join(dst, "meta.json"), "w"), indent=1)
print(name, "suite_ok" if ok_suite else "SUITE-FAIL", "demo_ok" if confirmed else "DEMO-NOT-CONFIRMED", {k: v["exit"] for k, v in det.items()})
