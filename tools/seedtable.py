#!/usr/bin/env python3
"""Regenerates the table of seeded changes in DESIGN.md section 15 from seeded/*/meta.json."""
import json, glob, os, re
root = os.path.dirname(os.path.dirname(os.path.abspath(__file__)))
rows = ["| id | what the change does (author's heading) | caught by (oracle codes) |", "|---|---|---|"]
for mp in sorted(glob.glob(os.path.join(root, "seeded", "*", "meta.json"))):
    m = json.load(open(mp))
    head = m.get("description_by_author", "").strip().split("\n")[0]
    head = re.sub(r"^#+\s*", "", head)
    head = re.sub(r"^\**[mM]\d\**\s*[-–—:(]*\s*", "", head).strip("* ")[:150].replace("|", "/")
    det = []
    for k, v in sorted(m.get("detection", {}).items()):
        if v["exit"] == 1:
            codes = sorted({re.sub(r"^C\d+:", "", s).split(":")[0].split(" ")[0] for s in v["signatures"]})
            det.append(f"{k}: {', '.join(codes[:4])}")
        else:
            det.append(f"{k}: **missed** (exit {v['exit']})")
    ok = m["confirmed"]
    flag = "" if ok["compiles_and_existing_suite_passes_with_change"] and ok["demo_passes_on_clean_tree_and_fails_with_change"] else " (not confirmed)"
    rows.append(f"| {m['id']}{flag} | {head} | {'; '.join(det)} |")
table = "\n".join(rows)
p = os.path.join(root, "DESIGN.md")
s = open(p).read()
if "@TABLE@" in s:
    s = s.replace("@TABLE@", "<!-- seeded-table -->\n" + table + "\n<!-- /seeded-table -->")
else:
    s = re.sub(r"<!-- seeded-table -->.*?<!-- /seeded-table -->", lambda _: "<!-- seeded-table -->\n" + table + "\n<!-- /seeded-table -->", s, flags=re.S)
open(p, "w").write(s)
print(len(rows) - 2, "seeded changes listed")
