#!/bin/bash
# Evaluate a seeded change: tools/evalmut.sh <name> <patch.diff> [properties...]
# Applies the patch to a scratch worktree of /repo (never to /repo itself), confirms that the existing
# suite still passes with it, runs the listed quick checks against the patched copy (VERIF_SRC) and
# prints one line per check. The worktree is removed afterwards.
name=$1; patch=$(readlink -f "$2"); shift 2
props=${@:-C01 C02 C03 C04 C06 C07 C08 C09 C10 C11 C13 C17}
cd "$(dirname "$0")/.." || exit 2
export GOFLAGS=-mod=mod GOPROXY=off GOSUMDB=off
W=/tmp/mw/$name
rm -rf "$W"; mkdir -p /tmp/mw
git -C /repo worktree add -q --detach "$W" HEAD || exit 2
trap 'git -C /repo worktree remove --force "$W" 2>/dev/null; rm -rf "$W" /tmp/mw/'$name'.work' EXIT
if ! git -C "$W" apply "$patch"; then echo "$name: PATCH DOES NOT APPLY"; exit 2; fi
if ! (cd "$W" && go build ./... ) >/tmp/mw/$name.build 2>&1; then echo "$name: DOES NOT COMPILE"; tail -5 /tmp/mw/$name.build; exit 2; fi
ok=0
for try in 1 2 3 4 5; do
  if (cd "$W" && unshare -rn sh -c 'ip link set lo up && go test -vet=off -count=1 ./...' ) >/tmp/mw/$name.suite 2>&1; then ok=1; break; fi
  # the suite binds fixed loopback ports: another suite run on this machine makes it fail spuriously
  grep -q "address already in use" /tmp/mw/$name.suite || break
  sleep $((RANDOM % 7 + 3))
done
if [ $ok -ne 1 ]; then echo "$name: EXISTING SUITE FAILS"; grep -v "^ok\|no test files" /tmp/mw/$name.suite | head -10; exit 2; fi
echo "$name: compiles, existing suite passes"
for p in $props; do
  out=$(VERIF_SRC="$W" VERIF_OUT_DIR=/tmp/mw/$name.work TMPDIR=/tmp ./check $p ${TIER:-quick} 2>&1); rc=$?
  sigs=$(echo "$out" | grep "^  signature" | sed 's/ (.*//; s/  signature //; s/ - the process dies.*//' | sort -u | head -12 | tr '\n' ' ')
  echo "$name: $p exit=$rc $sigs"
  if [ $rc -ne 0 ] && [ -n "$VERBOSE" ]; then echo "$out" | tail -15; fi
done
