#!/bin/bash
# tools/confirm_demo.sh <name> <patch.diff> <demo_test.go>
# Confirms in a scratch worktree that the demonstration passes on the unmodified tree and fails with the patch.
name=$1; patch=$(readlink -f "$2"); demo=$(readlink -f "$3")
export GOFLAGS=-mod=mod GOPROXY=off GOSUMDB=off
W=/tmp/mw/demo-$name
rm -rf "$W"; mkdir -p /tmp/mw
git -C /repo worktree add -q --detach "$W" HEAD || exit 2
trap 'git -C /repo worktree remove --force "$W" 2>/dev/null; rm -rf "$W"' EXIT
pkg=$(grep -m1 '^package ' "$demo" | awk '{print $2}')
case "$pkg" in
  uhppote|uhppote_test) dir=uhppote;;
  types|types_test) dir=types;;
  messages|messages_test) dir=messages;;
  UTO311_L0x|UTO311_L0x_test|codec) dir=encoding/UTO311-L0x;;
  bcd) dir=encoding/bcd;;
  *) echo "$name: unknown demo package $pkg"; exit 2;;
esac
cp "$demo" "$W/$dir/zz_demo_${name//-/_}_test.go"
tests=$(grep -o '^func Test[A-Za-z0-9_]*' "$demo" | sed 's/func //' | paste -sd'|')
runit() { (cd "$W" && unshare -rn sh -c "ip link set lo up && go test -vet=off -count=1 $1 -run '^($tests)\$' ./$dir/" ) > /tmp/mw/demo-$name.$2 2>&1; }
flag=""
runit "" clean; rc_clean=$?
git -C "$W" apply "$patch" || { echo "$name: patch does not apply"; exit 2; }
runit "" mut; rc_mut=$?
if [ $rc_clean -eq 0 ] && [ $rc_mut -eq 0 ]; then
  flag="-race"
  runit "-race" mut; rc_mut=$?
  git -C "$W" apply -R "$patch"; runit "-race" clean; rc_clean=$?
fi
echo "$name: demo($tests) ${flag:-plain}: clean tree rc=$rc_clean, with change rc=$rc_mut  => $([ $rc_clean -eq 0 ] && [ $rc_mut -ne 0 ] && echo CONFIRMED || echo NOT-CONFIRMED)"
