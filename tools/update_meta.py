#!/usr/bin/env python3
"""tools/update_meta.py <log...>: folds the lines printed by tools/evalmut.sh / tools/regress_seeded.sh
('<id>: <check> exit=<n> <signatures>') into seeded/<id>/meta.json (key 'detection')."""
import sys, re, json, os
root = os.path.dirname(os.path.dirname(os.path.abspath(__file__)))
for path in sys.argv[1:]:
    for line in open(path, errors='replace'):
        m = re.search(r'(C\d+-m\d+)x?: (C\d+) exit=(\d+) ?(.*)', line)
        if not m:
            continue
        mid, chk, rc, sigs = m.group(1), m.group(2), int(m.group(3)), m.group(4).strip()
        mp = os.path.join(root, 'seeded', mid, 'meta.json')
        if not os.path.exists(mp):
            continue
        meta = json.load(open(mp))
        codes = sorted(set(s for s in re.split(r'\s+(?=C\d+:)', sigs) if s))[:12]
        meta.setdefault('detection', {})[chk] = {'exit': rc, 'signatures': codes}
        json.dump(meta, open(mp, 'w'), indent=1)
