#!/bin/bash
# tools/determinism.sh [runs] - every property's first <runs> seeds are executed in separate processes
# under GOMAXPROCS 1, 4 and 16 (plus the race build for C08/C10) and the trace hashes are compared.
cd "$(dirname "$0")/.." || exit 2
export GOFLAGS=-mod=mod GOPROXY=off GOSUMDB=off GOTOOLCHAIN=local
N=${1:-300}
W=$(mktemp -d /tmp/vdet.XXXX); trap 'rm -rf $W' EXIT
go1.26.8 run ./cmd/rewrite -repo /repo -out $W || exit 2
go1.26.8 test -c -overlay $W/overlay.json -o $W/sim.test ./sim/simtest/ || exit 2
go1.26.8 test -c -race -gcflags='verif/...=-race=false' -overlay $W/overlay.json -o $W/race.test ./sim/simtest/ || exit 2
bad=0
for p in C01 C02 C03 C04 C06 C07 C08 C09 C10 C11 C13 C17; do
  for mp in 1 4 16; do
    GOMAXPROCS=$mp VERIF_PROP=$p VERIF_MODE=hashes VERIF_N=$N VERIF_OUT=$W/$p.$mp.jsonl $W/sim.test -test.run '^TestWorker$' -test.count=1 >/dev/null 2>&1 &
  done
  GOMAXPROCS=8 GORACE="halt_on_error=0 exitcode=0 log_path=$W/racelog" VERIF_PROP=$p VERIF_MODE=hashes VERIF_N=$N VERIF_OUT=$W/$p.race.jsonl $W/race.test -test.run '^TestWorker$' -test.count=1 >/dev/null 2>&1 &
  wait
  for x in 4 16 race; do
    if ! cmp -s $W/$p.1.jsonl $W/$p.$x.jsonl; then echo "$p: traces differ between GOMAXPROCS=1 and $x"; diff $W/$p.1.jsonl $W/$p.$x.jsonl | head -4; bad=1; fi
  done
  echo "$p: $(wc -l < $W/$p.1.jsonl) runs x 4 processes identical=$([ $bad -eq 0 ] && echo yes || echo no)"
done
exit $bad
