#!/usr/bin/env python3
"""tools/seeded_table.py: prints the 'which check catches which' table of DESIGN.md section 15 from seeded/*/meta.json
and, with -w, replaces the table between the seeded-table markers in DESIGN.md."""
import sys, re, json, os, glob
root = os.path.dirname(os.path.dirname(os.path.abspath(__file__)))
def key(p):
    m = re.match(r'C(\d+)-m(\d+)', os.path.basename(os.path.dirname(p)))
    return (int(m.group(1)), int(m.group(2)))
rows = ['| id | what the change does (author\'s heading) | caught by (oracle codes) |', '|---|---|---|']
for mp in sorted(glob.glob(os.path.join(root, 'seeded', '*', 'meta.json')), key=key):
    meta = json.load(open(mp))
    head = (meta.get('description_by_author') or '').strip().splitlines()[0] if meta.get('description_by_author') else ''
    head = re.sub(r'^#+\s*[mM]\d+\s*[-–—:]*\s*', '', head).replace('|', '/')
    det = meta.get('detection', {})
    own = meta['property']
    parts = []
    for chk in [own] + sorted(c for c in det if c != own):
        d = det.get(chk)
        if not d or d['exit'] != 1:
            continue
        codes = sorted(set(re.sub(r'^C\d+:', '', s).split(':')[0] + (':' + re.sub(r'^C\d+:', '', s).split(':')[1] if re.sub(r'^C\d+:', '', s).startswith(('event:', 'entry:')) else '') for s in d['signatures']))
        codes = sorted(set(c.split(':')[0] for c in codes))
        parts.append(f"{chk}: {', '.join(codes[:5])}")
    caught = '; '.join(parts) if parts else '**not caught** (see text)'
    rows.append(f"| {meta['id']} | {head} | {caught} |")
table = '\n'.join(rows)
if '-w' in sys.argv:
    p = os.path.join(root, 'DESIGN.md')
    s = open(p).read()
    a, b = s.index('<!-- seeded-table -->'), s.index('<!-- /seeded-table -->')
    s = s[:a] + '<!-- seeded-table -->\n' + table + '\n' + s[b:]
    open(p, 'w').write(s)
else:
    print(table)
