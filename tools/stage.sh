#!/bin/bash
# tools/stage.sh <agent-outdir> <offset> <stagedir>: renumber a sub-agent's mK files to m(K+offset)
# so that they do not collide with changes already kept under /verif/seeded.
src=$1; off=$2; dst=$3
rm -rf "$dst"; mkdir -p "$dst"
cp "$src/README.md" "$dst/README.md" 2>/dev/null
for k in 9 8 7 6 5 4 3 2 1; do
  n=$((k+off))
  [ -f "$src/m$k.diff" ] || continue
  cp "$src/m$k.diff" "$dst/m$n.diff"
  for f in "$src"/m${k}_demo*_test.go; do [ -f "$f" ] && cp "$f" "$dst/m${n}_demo_test.go"; done
  sed -i -E "s/^(#+) [mM]$k\b/\1 m$n/" "$dst/README.md"
done
ls "$dst"
