#!/bin/bash
# tools/regress_seeded.sh [ids...]: runs every kept seeded change against the quick check of its own property
# (tools/evalmut.sh: scratch worktree, never /repo) and prints one line per change. MISSED lines need attention.
cd "$(dirname "$0")/.." || exit 2
ids=${@:-$(ls seeded)}
for id in $ids; do
  p=${id%%-*}
  out=$(tools/evalmut.sh $id seeded/$id/patch.diff $p 2>&1 | grep "$id: $p exit=")
  case "$out" in
    *"exit=1"*) echo "caught  $out";;
    *) echo "MISSED  $id: $out";;
  esac
done
